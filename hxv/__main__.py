import os
import sys

if os.environ.get("PYTHONHASHSEED") != "0":
    # make every run a pure function of (tree, seed, tier): re-exec with a fixed hash seed
    os.environ["PYTHONHASHSEED"] = "0"
    os.execv(sys.executable, [sys.executable, "-m", "hxv"] + sys.argv[1:])

from hxv.runner import cli

sys.exit(cli())

"""Line coverage of the library under the checks (diagnostic only, enabled by HXV_COV=<dir>).

Uses sys.monitoring (3.12): every line location reports once and is then disabled, so the cost is negligible.
Each process dumps the set of lines it saw to <dir>/<pid>.json when dump() is called (end of a shard process and
end of the main process); tools/coverage_report.py merges them.  Not part of any verdict."""
from __future__ import annotations

import json
import os
import sys

HITS: set = set()
_ON = False


def start(src):
    global _ON
    if _ON or not os.environ.get("HXV_COV") or not hasattr(sys, "monitoring"):
        return
    mon = sys.monitoring
    tool = mon.COVERAGE_ID
    try:
        mon.use_tool_id(tool, "hxv-cov")
    except ValueError:
        return
    prefix = os.path.join(src, "hexital") + os.sep

    def on_line(code, line):
        if code.co_filename.startswith(prefix):
            HITS.add((code.co_filename[len(prefix) :], line))
        return mon.DISABLE

    mon.register_callback(tool, mon.events.LINE, on_line)
    mon.set_events(tool, mon.events.LINE)
    _ON = True
    import atexit

    atexit.register(dump)


def dump():
    d = os.environ.get("HXV_COV")
    if not d or not _ON:
        return
    os.makedirs(d, exist_ok=True)
    with open(os.path.join(d, f"{os.getpid()}.json"), "w") as fh:
        json.dump(sorted(HITS), fh)

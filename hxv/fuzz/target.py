"""Coverage-guided stage (atheris / libFuzzer), run under python3-vt with PYTHONPATH=<verif>:<src>.

usage:  python3-vt -m hxv.fuzz.target <PROP> <shard-name> [libFuzzer flags] [corpus dir]

The fuzzer's bytes are turned into a JSON case by the SAME Hypothesis strategy the shard uses
(`fuzz_one_input`), the case is judged by the SAME run_case/oracle as the property-based tier, and an
unknown violation is written as a replay file and raised, which makes libFuzzer stop and keep the input.
All library state lives in objects the case constructs; the only global (process TZ) is pinned by hxv.
"""
from __future__ import annotations

import importlib
import json
import os
import sys


def main():
    import atheris

    prop, shard_name = sys.argv[1].upper(), sys.argv[2]
    argv = [sys.argv[0]] + sys.argv[3:]

    with atheris.instrument_imports(include=["hexital"]):
        import hexital  # noqa: F401  (instrumented: coverage of the library guides the search)
        import hexital.core.candle_manager  # noqa: F401
        import hexital.analysis.movement  # noqa: F401
        import hexital.analysis.patterns  # noqa: F401
    import hxv  # noqa: F401
    from hypothesis import HealthCheck, given, settings

    from hxv.lib import case_hash
    from hxv.runner import guarded, load_known, match_known, out_dir

    mod = importlib.import_module(f"hxv.props.{prop.lower()}")
    shard = next(s for s in mod.shards("thorough") if s.name == shard_name)
    known = load_known(prop)
    stats = {"cases": 0, "nontrivial": set(), "known": 0}

    @settings(database=None, deadline=None, suppress_health_check=list(HealthCheck))
    @given(shard.strategy())
    def test(case):
        res = guarded(mod, case)
        stats["cases"] += 1
        if res.nontrivial:
            stats["nontrivial"].add(case_hash(case))
        for v in res.violations:
            sig = v.sig(prop, shard.subject)
            if match_known(known, sig) is not None:
                stats["known"] += 1
                continue
            d = os.path.join(out_dir(), "replay", prop)
            os.makedirs(d, exist_ok=True)
            rel = os.path.join("replay", prop, "fuzz-" + case_hash([sig, case]) + ".json")
            with open(os.path.join(out_dir(), rel), "w") as fh:
                json.dump({"property": prop, "shard": "fuzz:" + shard_name, "signature": sig, "detail": v.detail, "case": case}, fh, indent=1, default=str)
            print(f"FUZZ-VIOLATION signature={sig} replay={rel} detail={v.detail[:300]}", flush=True)
            raise RuntimeError(sig)

    fuzz_one = test.hypothesis.fuzz_one_input

    def one(data):
        fuzz_one(data)

    import atexit  # not run by libFuzzer's exit path; stats are therefore also flushed periodically

    def flush():
        print(f"FUZZ-STATS cases={stats['cases']} nontrivial={len(stats['nontrivial'])} known={stats['known']}", flush=True)

    atexit.register(flush)
    every = int(os.environ.get("HXV_FUZZ_STATS_EVERY", "250"))

    def one_counted(data):
        one(data)
        if stats["cases"] and stats["cases"] % every == 0:
            flush()

    atheris.Setup(argv, one_counted)
    atheris.Fuzz()


if __name__ == "__main__":
    main()

"""Registry of every shipped indicator class and analysis wrapper, with parameter strategies.

A configuration is JSON: {"cls": "EMA", "kw": {...}} or {"analysis": "rising", "kw": {...}}.
`warmup(cfg)` is a *generous* upper bound on the number of candles before every output field
has started; it only sizes streams and lifespans and is never used as an oracle.
"""
from __future__ import annotations

import math

from hypothesis import strategies as st

PERIOD = st.one_of(st.integers(2, 6), st.integers(2, 15), st.integers(2, 15), st.integers(16, 40))
SMALLP = st.integers(2, 9)
MULT = st.sampled_from((1.0, 1.5, 2.0, 3.0))
PRICE_INPUT = st.sampled_from(("close", "close", "open", "high", "low"))
ROUND = st.sampled_from((4, 4, 4, 0, 1, 2, 3, 5, 6, 8))


def _opt(d: dict, **optional):
    return st.fixed_dictionaries(d, optional=optional)


def _kw_plain(period=PERIOD, **more):
    return _opt({"period": period, **more}, round_value=ROUND)


def _kw_input(period=PERIOD, **more):
    return _opt({"period": period, **more}, input_value=PRICE_INPUT, round_value=ROUND)


@st.composite
def _kw_ema(draw):
    kw = draw(_kw_input())
    if draw(st.integers(0, 2)) == 0:
        kw["smoothing"] = draw(st.sampled_from((1.0, 2.0, 3.0)))
        if kw["smoothing"] > kw["period"] + 1:
            kw["smoothing"] = 2.0
    return kw


@st.composite
def _kw_macd(draw):
    fast = draw(st.integers(2, 12))
    slow = fast + draw(st.integers(1, 10))
    kw = {"fast_period": fast, "slow_period": slow, "signal_period": draw(st.integers(2, 9))}
    kw.update(draw(_opt({}, input_value=PRICE_INPUT, round_value=ROUND)))
    return kw


@st.composite
def _kw_adx(draw):
    kw = {"period": draw(st.one_of(st.integers(2, 6), st.integers(2, 15)))}
    if draw(st.booleans()):
        kw["period_signal"] = draw(st.integers(2, 10))
    kw.update(draw(_opt({}, round_value=ROUND)))
    return kw


@st.composite
def _kw_tsi(draw):
    kw = {"period": draw(st.one_of(st.integers(2, 6), st.integers(2, 15)))}
    if draw(st.booleans()):
        kw["smooth_period"] = draw(st.integers(2, 8))
    kw.update(draw(_opt({}, input_value=PRICE_INPUT, round_value=ROUND)))
    return kw


REG = {
    "ADX": _kw_adx,
    "AROON": lambda: _kw_plain(),
    "ATR": lambda: _kw_plain(),
    "BBANDS": lambda: _kw_input(),
    "Counter": lambda: _opt(
        {"input_value": st.sampled_from(("positive", "negative"))}, count_value=st.sampled_from((True, False))
    ),
    "Donchian": lambda: _kw_plain(),
    "EMA": _kw_ema,
    "HighestLowest": lambda: _kw_plain(),
    "HighLowAverage": lambda: _opt({}, round_value=ROUND),
    "HMA": lambda: _kw_input(),
    "KC": lambda: _kw_input(multiplier=MULT),
    "MACD": _kw_macd,
    "OBV": lambda: _opt({}, round_value=ROUND),
    "RMA": lambda: _kw_input(),
    "ROC": lambda: _kw_input(),
    "RSI": lambda: _kw_input(),
    "SMA": lambda: _kw_input(),
    "StandardDeviation": lambda: _kw_input(),
    "StandardDeviationThreshold": lambda: _kw_input(multiplier=MULT),
    "STOCH": lambda: _kw_input(slow_period=st.integers(2, 5), smoothing_k=st.integers(2, 5)),
    "Supertrend": lambda: _kw_plain(multiplier=MULT),
    "TR": lambda: _opt({}, round_value=ROUND),
    "TSI": _kw_tsi,
    "VWAP": lambda: _opt({}, round_value=ROUND),
    "VWMA": lambda: _kw_plain(),
    "WMA": lambda: _kw_input(),
}
CLASSES = tuple(REG)

_FIELD = st.sampled_from(("close", "open", "high", "low", "volume"))
_LEN = st.integers(1, 8)
_ONE = lambda: _opt({"indicator": _FIELD}, length=_LEN)  # noqa: E731
_TWO = lambda: _opt({"indicator_one": _FIELD, "indicator_two": _FIELD}, length=_LEN)  # noqa: E731
_PAT = lambda: _opt({}, lookback=st.integers(1, 6))  # noqa: E731

ANALYSIS = {
    "cross": _TWO,
    "crossover": _TWO,
    "crossunder": _TWO,
    "falling": _ONE,
    "highest": _ONE,
    "highestbar": _ONE,
    "lowest": _ONE,
    "lowestbar": _ONE,
    "mean_falling": _ONE,
    "mean_rising": _ONE,
    "negative": lambda: st.just({}),
    "positive": lambda: st.just({}),
    "rising": _ONE,
    "value_range": lambda: _opt({"indicator": _FIELD}, length=st.integers(2, 8)),
    "doji": _PAT,
    "dojistar": _PAT,
    "hammer": _PAT,
    "inv_hammer": _PAT,
}
WRAPPERS = tuple(ANALYSIS)
SUBJECTS = CLASSES + tuple("fn:" + w for w in WRAPPERS)


@st.composite
def config(draw, subject=None):
    """subject: a class name, 'fn:<analysis>' or None (any)"""
    subject = subject or draw(st.sampled_from(SUBJECTS))
    if subject.startswith("fn:"):
        name = subject[3:]
        return {"analysis": name, "kw": draw(ANALYSIS[name]())}
    return {"cls": subject, "kw": draw(REG[subject]())}


def subject_of(cfg) -> str:
    return "fn:" + cfg["analysis"] if "analysis" in cfg else cfg["cls"]


def warmup(cfg) -> int:
    kw = cfg.get("kw", {})
    if "analysis" in cfg:
        return 12 + kw.get("lookback", 0) + kw.get("length", 0)
    c, p = cfg["cls"], kw.get("period", 14)
    if c == "ADX":
        return 3 * p + kw.get("period_signal", p) + 6
    if c == "MACD":
        return kw["slow_period"] + kw["signal_period"] + 3
    if c == "TSI":
        return p + kw.get("smooth_period", p // 2 + 1) + 4
    if c == "STOCH":
        return p + kw.get("slow_period", 3) + kw.get("smoothing_k", 3) + 2
    if c == "HMA":
        return p + int(math.sqrt(p)) + 3
    if c in ("Counter", "OBV", "VWAP", "TR", "HighLowAverage"):
        return 3
    if c == "KC" or c == "Supertrend":
        return p + 4
    return p + 3


def lookback(cfg) -> int:
    """generous bound on how many earlier candles one new reading may consult"""
    kw = cfg.get("kw", {})
    if "analysis" in cfg:
        return 12 + kw.get("lookback", 0) + kw.get("length", 4)
    return warmup(cfg)

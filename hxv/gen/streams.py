"""Hypothesis strategies for candle streams.  Everything is constructed, nothing filtered.

A stream is a list of rows [ts, open, high, low, close, volume]; ts is epoch seconds of a
naive wall-clock time (or None); prices are multiples of a tick on a small grid so that ties
(equal closes, equal highs, equal volumes, flat candles) are frequent.
"""
from __future__ import annotations

from hypothesis import strategies as st

BASE_DAY = 1685577600  # 2023-06-01 00:00:00, a multiple of 86400

REGIMES = ("walk", "up", "down", "flat", "flatbody", "gap", "spike")
_SWITCH = st.sampled_from((None,) * 17 + REGIMES[0:1] * 2 + REGIMES[1:])  # persist with p ~ 0.7..0.85
_VOLUME = st.sampled_from((0, 0, 0, 1, 1, 2, 2, 3, 5, 5, 7, 100, 12345, 1000000, 0.5, 2.25))  # incl. fractional lots (dyadic: exact sums)
_GRID = st.sampled_from(((1.0, 0), (0.25, 2), (0.01, 2)))
_BASE = st.sampled_from((20, 100, 100, 10_000, 1_000_000))


def _px(ticks: int, tick: float, nd: int) -> float:
    return float(ticks) if tick == 1.0 else round(ticks * tick, nd)


@st.composite
def price_rows(draw, n, regimes=REGIMES, start_regime=None, zero_volume_runs=True, grid=None, base=None):
    """n rows [o, h, l, c, v] from the regime machine"""
    tick, nd = grid if grid is not None else draw(_GRID)
    pc = base if base is not None else draw(_BASE)
    regime = start_regime or draw(st.sampled_from(regimes))
    vol_zero_run = 0
    rows = []
    for _ in range(n):
        sw = draw(_SWITCH)
        if sw is not None and sw in regimes:
            regime = sw
        o = pc
        if regime == "flat":
            c = h = l = o
        else:
            if regime == "walk":
                d = draw(st.integers(-3, 3))
            elif regime == "up":
                d = draw(st.integers(1, 3))
            elif regime == "down":
                d = -draw(st.integers(1, 3))
            elif regime == "flatbody":
                d = 0
            elif regime == "gap":
                o = max(1, pc + draw(st.sampled_from((-5, -2, -1, 1, 2, 5))))
                d = draw(st.integers(-2, 2))
            else:  # spike
                d = draw(st.sampled_from((-50, -10, 10, 50)))
            c = max(1, o + d)
            h = max(o, c) + draw(st.integers(0, 3))
            l = max(1, min(o, c) - draw(st.integers(0, 3)))
        if zero_volume_runs and vol_zero_run > 0:
            v, vol_zero_run = 0, vol_zero_run - 1
        else:
            v = draw(_VOLUME)
            if zero_volume_runs and v == 0 and draw(st.integers(0, 3)) == 0:
                vol_zero_run = draw(st.integers(1, 12))
        rows.append([_px(o, tick, nd), _px(h, tick, nd), _px(l, tick, nd), _px(c, tick, nd), v])
        pc = c
    return rows


@st.composite
def timestamps(draw, n, tf_s=None, pattern=None, step=None, start=None):
    """n non-decreasing epoch-second timestamps.  With tf_s (timeframe seconds) the spacing
    is drawn relative to the bucket width so that buckets hold 0..6 candles."""
    if n == 0:
        return []
    pattern = pattern or draw(st.sampled_from(("regular", "regular", "jitter", "jitter", "gappy", "burst")))
    if step is None:
        if tf_s:
            step = max(1, draw(st.sampled_from((tf_s // 5, tf_s // 3, tf_s // 2, tf_s, tf_s, 2 * tf_s, 3 * tf_s))))
        else:
            step = draw(st.sampled_from((1, 60, 60, 300, 3600)))
    if start is None:
        unit = tf_s or step
        k = draw(st.integers(0, 50))
        off = draw(st.sampled_from((0, 0, 1, unit // 2, max(unit - 1, 0))))
        start = BASE_DAY + k * unit + off
    out = [start]
    for _ in range(n - 1):
        if pattern == "regular":
            d = step
        elif pattern == "jitter":
            d = draw(st.sampled_from((0, 1, max(step // 3, 1), step, step, step, 2 * step, 7 * step)))
        elif pattern == "gappy":
            d = draw(st.sampled_from((step,) * 6 + (0, (tf_s or step) * 2, (tf_s or step) * 5, (tf_s or step) * 40 + 1)))
        else:  # burst
            d = draw(st.sampled_from((0, 0, 1, 1, 2, step, (tf_s or step) * 3)))
        out.append(out[-1] + d)
    return out


@st.composite
def streams(draw, min_n=0, max_n=60, tf_s=None, with_ts=True, **price_kw):
    n = draw(st.integers(min_n, max_n))
    rows = draw(price_rows(n, **price_kw))
    if with_ts:
        ts = draw(timestamps(n, tf_s=tf_s))
    else:
        ts = [None] * n
    return [[t] + r for t, r in zip(ts, rows)]


TIMEFRAMES = ("S1", "S5", "S30", "T1", "T5", "T5", "T10", "T15", "T45", "H1", "H4", "D1", "D7")


@st.composite
def timeframe(draw, extra=True):
    """a timeframe string: the TimeFrame enum values plus arbitrary unit x multiplier"""
    if extra and draw(st.integers(0, 3)) == 0:
        return draw(st.sampled_from("STHD")) + str(draw(st.integers(1, 60)))
    return draw(st.sampled_from(TIMEFRAMES))


@st.composite
def chunking(draw, n, max_parts=None):
    """a composition of n into append chunk sizes, biased towards single candles (live feed),
    including zero-length chunks and large ones.  See lib.split_chunks for interpretation."""
    mode = draw(st.sampled_from(("ones", "ones", "mixed", "mixed", "halves", "one")))
    if mode == "one" or n == 0:
        return [n]
    if mode == "ones":
        return [1] * n
    if mode == "halves":
        k = draw(st.integers(0, n))
        return [k, n - k]
    out, left = [], n
    while left > 0 and (max_parts is None or len(out) < max_parts):
        s = draw(st.sampled_from((0, 1, 1, 1, 1, 2, 3, 5, 8, 20)))
        s = min(s, left)
        out.append(s)
        left -= s
    if left:
        out.append(left)
    return out

"""Reference predicates for hexital.analysis.movement, written from the docstrings and the
property statement over an extracted reading series (list of number / None).

Window of a predicate at candle i with `length`: candle i and the `length` candles before it.
Strict comparisons; extremes include the current candle; the most recent extreme wins ties;
missing readings are ignored and never make a predicate true."""


def _num(x):
    return isinstance(x, (int, float)) and not isinstance(x, bool)


def _prev(xs, i, length):
    return [x for x in xs[max(0, i - length) : i] if _num(x)]


def above(a, b, i):
    return _num(a[i]) and _num(b[i]) and a[i] > b[i]


def below(a, b, i):
    return _num(a[i]) and _num(b[i]) and a[i] < b[i]


def rising(xs, i, length):
    if not _num(xs[i]) or length < 1:
        return False
    w = _prev(xs, i, length)
    return bool(w) and all(x < xs[i] for x in w)


def falling(xs, i, length):
    if not _num(xs[i]) or length < 1:
        return False
    w = _prev(xs, i, length)
    return bool(w) and all(x > xs[i] for x in w)


def mean_rising(xs, i, length):
    if not _num(xs[i]) or length < 1:
        return False
    w = _prev(xs, i, length)
    return bool(w) and sum(w) / len(w) < xs[i]


def mean_falling(xs, i, length):
    if not _num(xs[i]) or length < 1:
        return False
    w = _prev(xs, i, length)
    return bool(w) and sum(w) / len(w) > xs[i]


def _window(xs, i, length):
    return [x for x in xs[max(0, i - length) : i + 1] if _num(x)]


def highest(xs, i, length):
    w = _window(xs, i, length)
    return max(w) if w else None


def lowest(xs, i, length):
    w = _window(xs, i, length)
    return min(w) if w else None


def value_range(xs, i, length):
    w = _window(xs, i, length)
    return abs(max(w) - min(w)) if len(w) >= 2 else None


def extreme_bar(xs, i, n_candles, high=True):
    """offset (0 = current) of the most recent extreme among the last n_candles candles; None if no reading"""
    best, off = None, None
    for k in range(n_candles):
        j = i - k
        if j < 0:
            break
        if not _num(xs[j]):
            continue
        if best is None or (xs[j] > best if high else xs[j] < best):
            best, off = xs[j], k
    return off


def crossover(a, b, i, length):
    return any(above(a, b, j) and below(a, b, j - 1) for j in range(max(i - length + 1, 1), i + 1))


def crossunder(a, b, i, length):
    return any(below(a, b, j) and above(a, b, j - 1) for j in range(max(i - length + 1, 1), i + 1))

"""Textbook definitions of the numeric indicators, in bounded arithmetic (ref/bounded.py).

Every function takes series (lists) of B / None / ANY and returns series of the same kind:
None  = the definition is not computable there (no reading may exist),
ANY   = a value must exist but the definition is singular there (unconstrained),
B     = value with the error bound rounding can introduce.
`r` is the number of decimals the library stores the series with (helpers: 4).
Nothing here imports hexital.
"""
from __future__ import annotations

import math

from hxv.ref.bounded import ANY, B, EPS, INF, bmax, bmin, first_full, gt

UNC = lambda: B(0.0, INF)  # noqa: E731  present but unconstrained (contaminated by a singular point)


def _bad(v):
    return v is ANY or (isinstance(v, B) and v.e == INF)


def _store(v, r):
    if v is None or v is ANY:
        return v
    return v.store(r)


def store_all(xs, r):
    return [_store(v, r) for v in xs]


# ------------------------------------------------------------------ moving averages
def sma(x, p, r=4, running=True):
    """mean of the last p inputs; the library updates it incrementally and stores it rounded,
    so the bound grows by one rounding per step (running=True)"""
    out = [None] * len(x)
    s = first_full(x, p)
    if s is None:
        return out
    drift = 0.0
    for i in range(s, len(x)):
        w = x[i - p + 1 : i + 1]
        if any(v is None for v in w):
            break
        if any(_bad(v) for v in w):
            # the running update keeps rounding while a singular point is inside the window
            drift += 0.5 * 10.0**-r + 100.0 * 4 * EPS
            out[i] = UNC()
            continue
        acc = B(0.0)
        for v in w:
            acc = acc + v
        tv = acc / p
        step = 0.5 * 10.0**-r + abs(tv.v) * 4 * EPS
        if i == s or not running:
            drift = step
        else:
            drift += step + (w[-1].e + x[i - p].e) / p if isinstance(x[i - p], B) else step
        out[i] = B(tv.v, max(tv.e + step, drift))
    return out


def ema(x, p, r=4, smoothing=2.0):
    out = [None] * len(x)
    s = first_full(x, p)
    if s is None:
        return out
    a = smoothing / (p + 1.0)
    w = x[s - p + 1 : s + 1]
    if any(_bad(v) for v in w):
        out[s] = UNC()
    else:
        acc = B(0.0)
        for v in w:
            acc = acc + v
        out[s] = (acc / p).store(r)
    for i in range(s + 1, len(x)):
        if x[i] is None:
            break
        if _bad(x[i]) or _bad(out[i - 1]):
            out[i] = UNC()
        else:
            out[i] = (a * x[i] + (1.0 - a) * out[i - 1]).store(r)
    return out


def rma(x, p, r=4):
    """Wilder: alpha = 1/p, seeded at the first full window by its decay-weighted mean"""
    out = [None] * len(x)
    s = first_full(x, p)
    if s is None:
        return out
    a = 1.0 / p
    w = x[s - p + 1 : s + 1]
    if any(_bad(v) for v in w):
        out[s] = UNC()
    else:
        num, den = B(0.0), 0.0
        for k in range(p):
            num = num + ((1 - a) ** k) * x[s - k]
            den += (1 - a) ** k
        out[s] = (num / den).store(r)
    for i in range(s + 1, len(x)):
        if x[i] is None:
            break
        if _bad(x[i]) or _bad(out[i - 1]):
            out[i] = UNC()
        else:
            out[i] = (a * x[i] + (1.0 - a) * out[i - 1]).store(r)
    return out


def wilder_mean_seed(x, p, r=4):
    """Wilder smoothing seeded by the plain mean of the first p values (ATR)"""
    out = [None] * len(x)
    s = first_full(x, p)
    if s is None:
        return out
    acc = B(0.0)
    for v in x[s - p + 1 : s + 1]:
        acc = acc + v
    out[s] = (acc / p).store(r)
    for i in range(s + 1, len(x)):
        if x[i] is None:
            break
        out[i] = ((out[i - 1] * (p - 1) + x[i]) / p).store(r)
    return out


def wma(x, p, r=4):
    out = [None] * len(x)
    for i in range(p - 1, len(x)):
        w = x[i - p + 1 : i + 1]
        if any(v is None for v in w):
            continue
        if any(_bad(v) for v in w):
            out[i] = UNC()
            continue
        acc = B(0.0)
        for k, v in enumerate(w):
            acc = acc + v * (k + 1)
        out[i] = (acc / (p * (p + 1) / 2)).store(r)
    return out


def vwma(c, v, p, r=4):
    out = [None] * len(c)
    for i in range(p - 1, len(c)):
        vol = sum(x.v for x in v[i - p + 1 : i + 1])
        if vol == 0:
            out[i] = ANY
            continue
        acc = B(0.0)
        for a, b in zip(c[i - p + 1 : i + 1], v[i - p + 1 : i + 1]):
            acc = acc + a * b
        out[i] = (acc / vol).store(r)
    return out


def hma(x, p, r=4):
    full = wma(x, p, 4)
    half = wma(x, int(p / 2), 4)
    raw = [None if a is None or b is None else (UNC() if _bad(a) or _bad(b) else 2 * b - a) for a, b in zip(full, half)]
    return store_all(wma(raw, int(math.sqrt(p)), 4), r)


# ------------------------------------------------------------------ volatility / range
def tr(h, l, c, r=4):
    out = [None] * len(h)
    for i in range(1, len(h)):
        out[i] = bmax(h[i] - l[i], abs(h[i] - c[i - 1]), abs(l[i] - c[i - 1])).store(r)
    return out


def atr(h, l, c, p, r=4):
    return wilder_mean_seed(tr(h, l, c, 4), p, r)


def stdev(x, p, r=4):
    """population sigma of the last p inputs.  The library keeps a running variance whose float
    cancellation error grows with magnitude^2 and the number of updates; the bound says so."""
    out = [None] * len(x)
    s = first_full(x, p)
    if s is None:
        return out
    mag = 0.0
    for i in range(s, len(x)):
        w = x[i - p + 1 : i + 1]
        if any(v is None for v in w):
            break
        if any(_bad(v) for v in w):
            out[i] = UNC()
            continue
        m = B(0.0)
        for v in w:
            m = m + v
        m = m / p
        var = B(0.0)
        for v in w:
            var = var + (v - m) * (v - m)
        var = var / p
        mag = max(mag, max(abs(v.v) for v in w))
        steps = i + 1
        var = var.widen(64 * EPS * mag * mag * steps)
        out[i] = var.sqrt().store(r)
    return out


def bbands(x, p, r=4, k=2.0):
    m = sma(x, p, 4)
    s = stdev(x, p, 4)
    lo, mid, up = [], [], []
    for a, b in zip(m, s):
        if a is None or b is None:
            lo.append(None), mid.append(None), up.append(None)
        elif _bad(a) or _bad(b):
            lo.append(UNC()), mid.append(UNC()), up.append(UNC())
        else:
            lo.append((a - b * k).store(r)), mid.append(a.store(r)), up.append((a + b * k).store(r))
    return {"BBL": lo, "BBM": mid, "BBU": up}


def kc(h, l, c, x, p, mult, r=4):
    e = ema(x, p, 4)
    a = atr(h, l, c, p, 4)
    lo, mid, up = [], [], []
    for u, v in zip(e, a):
        if u is None or v is None:
            lo.append(None), mid.append(None), up.append(None)
        else:
            lo.append((u - mult * v).store(r)), mid.append(u.store(r)), up.append((u + mult * v).store(r))
    return {"lower": lo, "band": mid, "upper": up}


def donchian(h, l, p, r=4):
    up, lo, mid = [], [], []
    for i in range(len(h)):
        if i - p + 1 < 0:
            up.append(None), lo.append(None), mid.append(None)
            continue
        u = bmax(*h[i - p + 1 : i + 1])
        d = bmin(*l[i - p + 1 : i + 1])
        up.append(u.store(r)), lo.append(d.store(r)), mid.append(((u + d) / 2).store(r))
    return {"DCU": up, "DCL": lo, "DCM": mid}


def highest_lowest(h, l, p, r=4, include_extra=True):
    """window extremes; include_extra: `p` candles back plus the current one (p+1 candles),
    else exactly p candles.  The prose leaves this open, the oracle accepts either."""
    n = p + 1 if include_extra else p
    hi = [bmax(*h[max(0, i - n + 1) : i + 1]).store(r) for i in range(len(h))]
    lo = [bmin(*l[max(0, i - n + 1) : i + 1]).store(r) for i in range(len(h))]
    return {"high": hi, "low": lo}


def hla(h, l, r=4):
    return [((a + b) / 2).store(r) for a, b in zip(h, l)]


def supertrend(h, l, c, p, mult, r=4):
    """-> (rows, truncated_at): rows[i] = None | (direction, trend B); comparison must stop at
    truncated_at (first candle whose discrete decision is ambiguous within the bounds)"""
    a = atr(h, l, c, p, 4)
    mid = hla(h, l, 4)
    out = []
    pu = pl = None
    pdir = 1
    for i in range(len(h)):
        if a[i] is None:
            out.append(None)
            continue
        up = mid[i] + mult * a[i]
        lo = mid[i] - mult * a[i]
        d = 1
        if pu is not None:
            g1 = gt(c[i], pu)
            g2 = gt(pl, c[i])
            if g1 is None or (g1 is False and g2 is None):
                return out, i
            if g1:
                d = 1
            elif g2:
                d = -1
            else:
                d = pdir
                if d == 1:
                    g = gt(pl, lo)
                    if g is None:
                        lo = B((lo.v + pl.v) / 2, abs(lo.v - pl.v) / 2 + max(lo.e, pl.e))
                    elif g:
                        lo = pl
                if d == -1:
                    g = gt(up, pu)
                    if g is None:
                        up = B((up.v + pu.v) / 2, abs(up.v - pu.v) / 2 + max(up.e, pu.e))
                    elif g:
                        up = pu
        pu, pl, pdir = up, lo, d
        out.append((d, (lo if d == 1 else up).store(r)))
    return out, None


def stdev_threshold(x, p, mult):
    """-> list of True / False / None(ambiguous); False where sigma is not defined yet"""
    s = stdev(x, p, 4)
    out = []
    for i in range(len(x)):
        if s[i] is None or i == 0 or x[i] is None or x[i - 1] is None:
            out.append(False if s[i] is None else None)
            continue
        if _bad(s[i]):
            out.append(None)
            continue
        out.append(gt(abs(x[i] - x[i - 1]), s[i] * mult))
    return out


def counter(x, val=True):
    out, n = [], 0
    for v in x:
        if v is not None:
            n = n + 1 if v == val else 0
        out.append(n)
    return out


# ------------------------------------------------------------------ momentum / oscillators / volume
def rsi(x, p, r=4):
    n = len(x)
    out = [None] * n
    s = first_full(x, p + 1)
    if s is None:
        return out
    g, lo = B(0.0), B(0.0)
    for i in range(s - p + 1, s + 1):
        d = x[i] - x[i - 1]
        g = g + bmax(d, 0.0)
        lo = lo + bmax(-d, 0.0)
    g, lo = g / p, lo / p

    def val(g, lo):
        if lo.v == 0 and lo.e == 0:
            return ANY if g.v == 0 else B(100.0).store(r)
        if lo.v <= 1e-300:
            return UNC()
        rs = g / lo
        if rs.e == INF:
            return UNC()
        return (100.0 - (100.0 / (1.0 + rs))).store(r)

    out[s] = val(g, lo)
    for i in range(s + 1, n):
        if x[i] is None:
            break
        d = x[i] - x[i - 1]
        g = (g * (p - 1) + bmax(d, 0.0)) / p
        lo = (lo * (p - 1) + bmax(-d, 0.0)) / p
        out[i] = val(g, lo)
    return out


def macd(x, fast, slow, sig, r=4):
    if slow < fast:
        fast, slow = slow, fast
    ef, es = ema(x, fast, 4), ema(x, slow, 4)
    line = [None if a is None or b is None else (a - b) for a, b in zip(ef, es)]
    line_stored = store_all(line, r)
    sg = ema(line_stored, sig, 4)
    hist = [None if a is None or b is None else (UNC() if _bad(a) or _bad(b) else (a - b).store(r)) for a, b in zip(line_stored, sg)]
    return {"MACD": line_stored, "signal": store_all(sg, r), "histogram": hist}


def roc(x, p, r=4):
    out = [None] * len(x)
    s = first_full(x, p + 1)
    if s is None:
        return out
    for i in range(s, len(x)):
        if x[i] is None or x[i - p] is None:
            break
        out[i] = ANY if x[i - p].v == 0 else (((x[i] - x[i - p]) / x[i - p]) * 100).store(r)
    return out


def stoch(h, l, x, p, slow, k, r=4):
    n = len(x)
    st = [None] * n
    s = first_full(x, p)
    if s is not None:
        for i in range(s, n):
            hh = bmax(*h[i - p + 1 : i + 1])
            ll = bmin(*l[i - p + 1 : i + 1])
            st[i] = ANY if hh.v == ll.v else ((x[i] - ll) / (hh - ll)) * 100
    kk = sma(st, k, 4)
    dd = sma(kk, slow, 4)
    return {"stoch": store_all(st, r), "k": store_all(kk, r), "d": store_all(dd, r)}


def tsi(x, p, sp, r=4):
    n = len(x)
    m = [None] * n
    for i in range(1, n):
        if x[i] is not None and x[i - 1] is not None:
            m[i] = x[i] - x[i - 1]
    am = [None if v is None else abs(v) for v in m]
    a = ema(ema(m, p, 4), sp, 4)
    b = ema(ema(am, p, 4), sp, 4)
    out = [None] * n
    for i in range(n):
        if a[i] is None or b[i] is None:
            continue
        if _bad(a[i]) or _bad(b[i]):
            out[i] = UNC()
        elif b[i].v <= 2 * b[i].e:
            out[i] = ANY
        else:
            out[i] = (100 * (a[i] / b[i])).store(r)
    return out


def aroon(h, l, p, r=4):
    up, dn, osc = [], [], []
    for i in range(len(h)):
        if i < p:
            up.append(None), dn.append(None), osc.append(None)
            continue
        wh = [v.v for v in h[i - p : i + 1]]
        wl = [v.v for v in l[i - p : i + 1]]
        bh = min(k for k in range(p + 1) if wh[p - k] == max(wh))
        bl = min(k for k in range(p + 1) if wl[p - k] == min(wl))
        u, d = (p - bh) / p * 100, (p - bl) / p * 100
        up.append(B(u).store(r)), dn.append(B(d).store(r)), osc.append(B(u - d).store(r))
    return {"AROONU": up, "AROOND": dn, "AROONOSC": osc}


def adx(h, l, c, p, ps, r=4, first_zero=False):
    """first_zero: the directional movement of candle 0 is taken as 0 (else undefined)"""
    n = len(h)
    pos, neg = [None] * n, [None] * n
    if first_zero and n:
        pos[0], neg[0] = B(0.0), B(0.0)
    for i in range(1, n):
        up = h[i].v - h[i - 1].v
        dn = l[i - 1].v - l[i].v
        pos[i] = B(up if up > dn and up > 0 else 0.0)
        neg[i] = B(dn if dn > up and dn > 0 else 0.0)
    a = atr(h, l, c, p, 4)
    rp, rn = rma(pos, p, 4), rma(neg, p, 4)
    dip, din, dx = [None] * n, [None] * n, [None] * n
    for i in range(n):
        if a[i] is None or rp[i] is None or rn[i] is None:
            continue
        if a[i].v <= 2 * a[i].e:
            dip[i], din[i], dx[i] = ANY, ANY, ANY
            continue
        dip[i] = 100 * rp[i] / a[i]
        din[i] = 100 * rn[i] / a[i]
        tot = dip[i] + din[i]
        dx[i] = ANY if tot.v <= 2 * tot.e else 100 * abs(dip[i] - din[i]) / tot
    line = rma(dx, ps, 4)
    return {"ADX": store_all(line, r), "DM_Plus": store_all(dip, r), "DM_Neg": store_all(din, r)}


def obv(c, v):
    """exact integers"""
    out = [v[0]] if c else []
    for i in range(1, len(c)):
        out.append(out[-1] + v[i] if c[i] > c[i - 1] else out[-1] - v[i] if c[i] < c[i - 1] else out[-1])
    return out


def obv_stored(c, v, r=4):
    """OBV as the library can store it: every running total is rounded to r decimals before the next volume is
    added; totals of volumes that sit on the r-decimal grid stay exact (error 0)"""
    out = [B.of(v[0]).store(r)] if c else []
    for i in range(1, len(c)):
        out.append((out[-1] + v[i]).store(r) if c[i] > c[i - 1] else (out[-1] - v[i]).store(r) if c[i] < c[i - 1] else out[-1])
    return out


def vwap(h, l, c, v, r=4):
    pv, vv, out = B(0.0), 0.0, []
    for i in range(len(c)):
        pv = pv + v[i].v * ((h[i] + l[i] + c[i]) / 3)
        vv += v[i].v
        out.append(ANY if vv == 0 else (pv / vv).store(r))
    return out

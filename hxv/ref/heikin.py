"""Reference Heikin-Ashi recurrence over rows [ts, o, h, l, c, v] (raw or reference-resampled)."""


def heikin_ashi(rows):
    out = []
    for i, (ts, o, h, l, c, v) in enumerate(rows):
        ha_close = (o + h + l + c) / 4
        if i == 0:
            ha_open = (o + c) / 2
        else:
            ha_open = (out[-1][1] + out[-1][4]) / 2
        out.append([ts, ha_open, max(h, ha_open, ha_close), min(l, ha_open, ha_close), ha_close, v])
    return out

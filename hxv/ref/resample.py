"""Reference resampler: right-closed, right-labelled OHLCV buckets (k*tf, (k+1)*tf].
Pure integer arithmetic on epoch seconds of the naive wall clock; shares no code with hexital."""


def label(ts: int, tf: int) -> int:
    return -((-ts) // tf) * tf  # ceil(ts / tf) * tf


def resample(rows, tf: int, fill: bool = False):
    """rows: [ts, o, h, l, c, v] with non-decreasing integer ts -> list of the same shape"""
    out = []
    for ts, o, h, l, c, v in rows:
        lab = label(ts, tf)
        if out and out[-1][0] == lab:
            b = out[-1]
            b[2] = max(b[2], h)
            b[3] = min(b[3], l)
            b[4] = c
            b[5] += v
        else:
            if fill and out:
                t = out[-1][0] + tf
                pc = out[-1][4]
                while t < lab:
                    out.append([t, pc, pc, pc, pc, 0])
                    t += tf
            out.append([lab, o, h, l, c, v])
    return out


def bucket_sizes(rows, tf: int):
    sizes = []
    last = None
    for r in rows:
        lab = label(r[0], tf)
        if lab == last:
            sizes[-1] += 1
        else:
            sizes.append(1)
            last = lab
    return sizes


def transitions(rows, tf: int):
    """classify every step of the walk, from the reference side (generator coverage labels)"""
    labs = []
    if not rows:
        return labs
    labs.append("first_on_boundary" if rows[0][0] % tf == 0 else "first_off_boundary")
    for prev, cur in zip(rows, rows[1:]):
        lp, lc = label(prev[0], tf), label(cur[0], tf)
        if cur[0] == prev[0]:
            labs.append("step_duplicate_ts")
        elif lc == lp:
            labs.append("step_same_bucket")
        elif lc == lp + tf:
            labs.append("step_next_bucket")
        elif cur[0] % tf == 0:
            labs.append("step_jump_on_boundary")
        else:
            labs.append("step_jump_off_boundary")
    return labs

"""'value +- error' arithmetic: what "within the error the configured rounding can introduce" means.

Hexital rounds every stored Indicator reading (helpers to 4 decimals, the indicator itself to
round_value) and feeds the rounded value into the next step.  The reference carries (v, e) pairs,
adds half a unit of the last stored decimal at every point where the library stores a value, and
propagates e through the arithmetic to first order.  The bound over-approximates what any staging
of the same definition can produce, so it cannot fire on a correct implementation; the final test
doubles it once more.
"""
from __future__ import annotations

import math

INF = float("inf")
EPS = 2.3e-16


class _Any:
    """a point where the definition is singular: a value must be present but is unconstrained"""

    def __repr__(self):
        return "ANY"


ANY = _Any()


class B:
    __slots__ = ("v", "e")

    def __init__(self, v, e=0.0):
        v, e = float(v), float(e)
        if v != v or v in (INF, -INF) or e != e:
            v, e = 0.0, INF
        self.v, self.e = v, e

    @staticmethod
    def of(x):
        return x if isinstance(x, B) else B(x)

    def store(self, r: int):
        """the library stored this value rounded to r decimals"""
        if self.e == 0.0 and round(self.v, r) == self.v:
            # an exact value that already sits on the r-decimal grid is stored unchanged (dyadic price
            # grids with period 2/4: ties between a close and a band are then decidable)
            return self
        return B(self.v, self.e + 0.5 * 10.0**-r + abs(self.v) * EPS)

    def widen(self, extra: float):
        return B(self.v, self.e + extra)

    def __add__(self, o):
        o = B.of(o)
        return B(self.v + o.v, self.e + o.e)

    __radd__ = __add__

    def __sub__(self, o):
        o = B.of(o)
        return B(self.v - o.v, self.e + o.e)

    def __rsub__(self, o):
        return B.of(o) - self

    def __mul__(self, o):
        o = B.of(o)
        if self.e == INF or o.e == INF:
            return B(self.v * o.v, INF)
        return B(self.v * o.v, abs(self.v) * o.e + abs(o.v) * self.e + self.e * o.e)

    __rmul__ = __mul__

    def __truediv__(self, o):
        o = B.of(o)
        if self.e == INF or o.e == INF or abs(o.v) <= 2 * o.e or o.v == 0:
            return B(self.v / o.v if o.v else 0.0, INF)
        return B(self.v / o.v, (abs(self.v) * o.e + abs(o.v) * self.e) / (abs(o.v) * (abs(o.v) - o.e)))

    def __rtruediv__(self, o):
        return B.of(o) / self

    def __neg__(self):
        return B(-self.v, self.e)

    def __abs__(self):
        return B(abs(self.v), self.e)

    def sqrt(self):
        v = max(self.v, 0.0)
        if self.e == INF:
            return B(math.sqrt(v), INF)
        if v <= 4 * self.e:
            return B(math.sqrt(v), math.sqrt(v + self.e))
        return B(math.sqrt(v), self.e / (2 * math.sqrt(v - self.e)))

    def __repr__(self):
        return f"{self.v!r}+-{self.e:.3g}"


def bmax(*xs):
    xs = [B.of(x) for x in xs]
    return B(max(x.v for x in xs), max(x.e for x in xs))


def bmin(*xs):
    xs = [B.of(x) for x in xs]
    return B(min(x.v for x in xs), max(x.e for x in xs))


def gt(a, b):
    """a > b decided on bounded values: True / False / None (ambiguous)"""
    a, b = B.of(a), B.of(b)
    if a.e == INF or b.e == INF:
        return None
    if abs(a.v - b.v) <= 2 * (a.e + b.e) + 1e-12 * max(abs(a.v), abs(b.v)) and (a.e + b.e) > 0:
        return None
    return a.v > b.v


def tolerance(ref: B) -> float:
    return 2 * ref.e + 1e-12 * abs(ref.v) + 1e-12


def ok(impl, ref) -> bool:
    if ref is ANY:
        return impl is not None
    if ref.e == INF:
        return True
    return abs(impl - ref.v) <= tolerance(ref)


def lift(xs):
    """list of numbers/None -> list of exact B/None"""
    return [None if x is None else B(x) for x in xs]


def first_full(x, p):
    """first index with p consecutive present values ending there"""
    run = 0
    for i, v in enumerate(x):
        run = run + 1 if v is not None else 0
        if run >= p:
            return i
    return None

"""hxv - property-based verification harness for MerlinR/Hexital.

Importing this package pins the process environment every check relies on:
the library is imported from HEXITAL_SRC (default /repo) and nowhere else, and
the process time zone is UTC (C18 switches zones itself, inside the property).
"""
import os
import sys
import time

SRC = os.path.realpath(os.environ.get("HEXITAL_SRC", "/repo"))
VERIF = os.path.dirname(os.path.dirname(os.path.abspath(__file__)))

if os.environ.get("HXV_KEEP_TZ") != "1":  # only C18's fresh-process child keeps the zone it was started under
    os.environ["TZ"] = "UTC"
    time.tzset()

if SRC in sys.path:
    sys.path.remove(SRC)
sys.path.insert(0, SRC)


if os.environ.get("HXV_COV"):  # diagnostic line coverage of the library (hxv/cov.py); never part of a verdict
    from hxv import cov as _cov

    _cov.start(SRC)


class HarnessError(Exception):
    """Something is wrong with the harness or its environment (exit 2), never a violation."""


def load_hexital():
    import hexital

    where = os.path.realpath(os.path.dirname(hexital.__file__))
    if not where.startswith(SRC + os.sep):
        raise HarnessError(f"hexital imported from {where}, expected under {SRC}")
    return hexital

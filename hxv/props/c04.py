"""C04 - moving averages match their definitions and are position independent."""
from __future__ import annotations

import math

from hypothesis import strategies as st

from hxv.gen import streams as gs
from hxv.lib import Result, Violation, build_indicator, is_num, mk_candles, raises
from hxv.props import numeric as nm
from hxv.ref import bounded as bd
from hxv.ref import indicators as ri
from hxv.ref.bounded import ANY, B, INF
from hxv.runner import Shard

PROP = "C04"
RULE = (
    "case = (SMA/EMA/RMA/WMA/VWMA/HMA, period 2..20(40), EMA smoothing, round_value 0..8, input = price field | volume | "
    "synthetic reading series on a 4-decimal grid (with 0.0 and negatives) starting at index s>=0 | real upstream indicator "
    "SMA/ROC/OBV, regime stream); oracles = (1) textbook definition in bounded arithmetic, (2) EMA/RMA recurrence against the "
    "implementation's own previous reading within one rounding step, (3) first reading exactly at the first index with `period` "
    "consecutive inputs, (4) reading within [min,max] of the inputs it averages (HMA exempt), (5) metamorphic position "
    "independence: run on candles[s:] and run with input-less candles prepended give identical readings; non-trivial = "
    ">= period+3 inputs after the start"
)
FLOORS = {"late_start": (0.3, None), "input_has_zero": (0.1, None), "round_not_4": (0.25, None)}
CLASSES = ("SMA", "EMA", "RMA", "WMA", "VWMA", "HMA")


@st.composite
def cases(draw, cls, max_n=80, max_p=20):
    period = draw(st.one_of(st.integers(2, 6), st.integers(2, max_p)))
    kw = {"period": period}
    if cls == "EMA" and draw(st.integers(0, 2)) == 0:
        kw["smoothing"] = draw(st.sampled_from((1.0, 2.0, 3.0)))
        if kw["smoothing"] > period + 1:
            kw["smoothing"] = 2.0
    rv = draw(st.sampled_from((4, 4, 0, 1, 2, 3, 5, 6, 8)))
    if rv != 4 or draw(st.booleans()):
        kw["round_value"] = rv
    n = draw(st.integers(0, max_n))
    rows = draw(gs.streams(n, n, with_ts=False))
    case = {"cls": cls, "kw": kw, "stream": rows, "input": "close", "start": 0}
    if cls != "HMA" and draw(st.integers(0, 2)) == 0:
        # the indicator is first built and calculated with these parameters, then re-tuned to kw and recalculated
        case["retune_from"] = {"period": draw(st.integers(2, max_p))}
        if cls == "EMA":
            case["retune_from"]["smoothing"] = draw(st.sampled_from((1.0, 2.0, 3.0)))
    if draw(st.integers(0, 3)) == 0:
        from hxv.lib import interlude

        case["interlude"] = dict(interlude(lambda a, b: draw(st.integers(a, b)), lambda xs: draw(st.sampled_from(xs))), at=draw(st.integers(1, 80)))
    if draw(st.integers(0, 3)) == 0:
        # a sibling of the same class and period on another input, told apart only by fullname_override, is
        # calculated on the same candles first: its helper series must not be mistaken for the judged indicator's
        case["sibling_input"] = draw(st.sampled_from(("high", "low", "open", "volume")))
    if cls == "VWMA":
        return case
    kind = draw(st.sampled_from(("price", "volume", "synthetic", "synthetic", "synthetic", "synthetic", "upstream", "upstream")))
    if kind == "price":
        case["input"] = draw(st.sampled_from(("close", "open", "high", "low")))
    elif kind == "volume":
        case["input"] = "volume"
    elif kind == "upstream":
        case["input"] = "upstream:" + draw(st.sampled_from(("SMA", "ROC", "OBV")))
        case["up_period"] = draw(st.integers(2, 6))
    else:
        case["input"] = "synthetic"
        s = draw(st.sampled_from((0, 1, 2, 3, 5, 8, 15)))
        s = min(s, n)
        unit = draw(st.sampled_from((1.0, 0.25, 0.5, 0.0001, 0.01)))
        v = draw(st.sampled_from((0, 0, 3, 100, 10000)))
        vals = []
        for _ in range(n - s):
            v += draw(st.integers(-3, 3))
            vals.append(round(v * unit, 4))
        case["start"], case["values"] = s, vals
        case["prepend"] = draw(st.sampled_from((0, 1, 2, 7)))
    return case


def _setup(case):
    """-> (input name, prepare(candles) callback, input series as seen by the indicator)"""
    rows = case["stream"]
    kind = case["input"]
    if kind in ("close", "open", "high", "low", "volume"):
        return kind, None, nm.column(rows, kind)
    if kind == "synthetic":
        s, vals = case["start"], case["values"]

        def prep(candles):
            for i, v in enumerate(vals):
                candles[s + i].indicators["X"] = v

        return "X", prep, [None] * s + list(vals)
    # upstream indicator computed first on the same candle list
    up = kind.split(":")[1]
    cfg = {"cls": up, "kw": {} if up == "OBV" else {"period": case.get("up_period", 3)}}
    holder = {}

    def prep(candles):
        u = build_indicator(cfg, candles=candles, fullname_override="UP")
        u.calculate()
        holder["name"] = u.name
        holder["series"] = [c.indicators.get(u.name) for c in candles]

    return "UP", prep, holder


def _reference(cls, kw, x, vol, r):
    p = kw["period"]
    if cls == "SMA":
        return ri.sma(x, p, r)
    if cls == "EMA":
        return ri.ema(x, p, r, kw.get("smoothing", 2.0))
    if cls == "RMA":
        return ri.rma(x, p, r)
    if cls == "WMA":
        return ri.wma(x, p, r)
    if cls == "VWMA":
        return ri.vwma(x, vol, p, r)
    return ri.hma(x, p, r)


def run_case(case) -> Result:
    cls, kw, rows = case["cls"], dict(case["kw"]), case["stream"]
    r = kw.get("round_value", 4)
    p = kw["period"]
    labels, viol, stats = [], [], {}
    if not rows:
        return Result([], False, ["empty"])
    name, prep, xs = _setup(case)
    cfg = {"cls": cls, "kw": kw if cls == "VWMA" else dict(kw, input_value=name)}
    if case.get("sibling_input") and cls != "VWMA":
        labels.append("with_sibling")
        prep0 = prep

        def prep(candles):
            if prep0:
                prep0(candles)
            sib = build_indicator({"cls": cls, "kw": dict(kw, input_value=case["sibling_input"])}, candles=candles, fullname_override="SIB")
            sib.calculate()

    ind, v = nm.run_batch(cfg, rows, prep, inter=case.get("interlude"))
    if case.get("interlude"):
        labels.append("maintenance_interlude")
    if v is not None:
        v.subject = cls
        return Result([v], False, labels)
    if isinstance(xs, dict):
        xs = xs["series"]
    if any(isinstance(t, bool) or (t is not None and not is_num(t)) for t in xs):
        return Result([], False, ["non_numeric_input"])
    start = next((i for i, t in enumerate(xs) if t is not None), len(xs))
    if start > 0:
        labels.append("late_start")
    if any(t == 0 for t in xs if t is not None):
        labels.append("input_has_zero")
    if r != 4:
        labels.append("round_not_4")
    labels.append("input:" + case["input"].split(":")[0])
    got = nm.series(ind)
    x = bd.lift(xs)
    vol = bd.lift(nm.column(rows, "volume"))
    ref = _reference(cls, kw, x, vol, r)

    # (1)+(3) definition and warm-up
    v = nm.judge_series("reading", got, ref, stats)
    if v:
        viol.append(v)
    # (2) recurrence against the implementation's own previous reading
    if cls in ("EMA", "RMA") and not viol:
        a = kw.get("smoothing", 2.0) / (p + 1.0) if cls == "EMA" else 1.0 / p
        for i in range(1, len(got)):
            if got[i] is not None and got[i - 1] is not None and xs[i] is not None:
                want = a * xs[i] + (1 - a) * got[i - 1]
                # one rounding for r[t] plus (1-a) of one rounding for the stored r[t-1] (an implementation may
                # legitimately carry its state unrounded and round only what it stores)
                if abs(got[i] - want) > (0.5 + 0.5 * (1 - a)) * 10.0**-r * 1.001 + 1e-9 * abs(want) + 1e-12:
                    viol.append(Violation("recurrence-broken", "reading", f"index {i}: got {got[i]!r}, a*x+(1-a)*prev = {want!r}"))
                    break
    # (4) bounds
    if cls != "HMA" and not viol:
        lo_all = hi_all = None
        for i, g in enumerate(got):
            if cls == "VWMA" and g is not None and ref[i] is ANY:
                # no volume in the window: the weighted mean is 0/0, but whatever is reported instead still has to
                # lie within the closes it averages (one rounding of slack)
                w = [t for t in xs[max(0, i - p + 1) : i + 1] if t is not None]
                slack = 0.5 * 10.0**-r * 1.001 + 1e-9 * max(abs(min(w)), abs(max(w)))
                if not (min(w) - slack <= g <= max(w) + slack):
                    viol.append(Violation("average-outside-input-range", "reading", f"index {i}: {g!r} not within [{min(w)}, {max(w)}] (window without volume)"))
                    break
                stats["volumeless_windows"] = stats.get("volumeless_windows", 0) + 1
                continue
            if g is None or ref[i] is None or ref[i] is ANY or ref[i].e == INF:
                continue
            if cls in ("EMA", "RMA"):
                w = [t for t in xs[start : i + 1] if t is not None]
            else:
                w = [t for t in xs[max(0, i - p + 1) : i + 1] if t is not None]
            tol = bd.tolerance(ref[i])
            if w and not (min(w) - tol <= g <= max(w) + tol):
                viol.append(Violation("average-outside-input-range", "reading", f"index {i}: {g!r} not within [{min(w)}, {max(w)}] +- {tol:.3g}"))
                break
    # (5) position independence
    if not viol and cls != "VWMA" and start < len(xs):
        tail_rows = rows[start:]
        tail_vals = xs[start:]

        def prep2(candles, off=0):
            for i, t in enumerate(tail_vals):
                if t is not None:
                    candles[off + i].indicators["X"] = t

        cfg2 = {"cls": cls, "kw": dict(kw, input_value="X")}
        ind2, v2 = nm.run_batch(cfg2, tail_rows, prep2)
        if v2 is not None:
            v2.subject = cls
            viol.append(v2)
        else:
            got2 = nm.series(ind2)
            if got2 != got[start:]:
                k = next(i for i, (a_, b_) in enumerate(zip(got2, got[start:])) if a_ != b_)
                viol.append(Violation("depends-on-position-of-input", "reading", f"input starting at index {start} vs the same input from index 0: reading {k} after start {got[start + k]!r} vs {got2[k]!r}"))
        k = case.get("prepend", 0)
        if k and not viol:
            pre_rows = [rows[0]] * k + tail_rows
            ind3, v3 = nm.run_batch(cfg2, pre_rows, lambda c: prep2(c, k))
            if v3 is not None:
                v3.subject = cls
                viol.append(v3)
            elif nm.series(ind3)[k:] != got[start:]:
                viol.append(Violation("depends-on-position-of-input", "reading", f"{k} input-less candles prepended change the readings"))
            labels.append("prepended")
    # (6) parameters changed midway: Hexital.recalculate is documented as "ideal for changing an indicator
    #     parameters midway" - after re-tuning and recalculate() the readings are those of the new parameters
    if not viol and case.get("retune_from") and cls != "HMA":
        labels.append("retuned")
        cfg0 = {"cls": cls, "kw": dict(cfg["kw"], **case["retune_from"])}
        ind0, v0 = nm.run_batch(cfg0, rows, prep)
        if v0 is None:
            try:
                for k_, val in kw.items():
                    setattr(ind0, k_, val)
                if cls == "EMA" and "smoothing" not in kw:
                    ind0.smoothing = 2.0
                ind0.recalculate()
                got0 = nm.series(ind0)
            except Exception as exc:
                viol.append(raises(exc))
            else:
                if got0 != got:
                    k = next((i for i, (a_, b_) in enumerate(zip(got0, got)) if a_ != b_), 0)
                    viol.append(Violation("retuned-readings-differ-from-definition", "recalculate", f"built with {case['retune_from']}, re-tuned to {kw} and recalculated: index {k} reads {got0[k]!r}, a fresh indicator {got[k]!r}"))
    for v in viol:
        v.subject = cls
    n_inputs = len([t for t in xs if t is not None])
    return Result(viol, n_inputs >= p + 3, labels, stats)


def shards(tier):
    n = 2000 if tier == "quick" else 30000
    mp = 20 if tier == "quick" else 40
    out = []
    for c in CLASSES:
        for k in range(2):
            out.append(Shard(f"{c}-{k}", (lambda c=c: cases(c, max_p=mp)), n // 2, subject=c, cost=2 if c == "HMA" else 1))
    return out

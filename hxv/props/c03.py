"""C03 - timeframe collapsing equals right-closed, right-labelled OHLCV resampling."""
from __future__ import annotations

from hypothesis import strategies as st

from hxv.gen import streams as gs
from hxv.lib import mk_candles as _mk
from hxv.lib import TZOFFS, utc_offsets, Result, Violation, mk_candles, raises, snap, split_chunks, tf_seconds
from hxv.ref import resample as rr
from hxv.runner import Shard

PROP = "C03"
CASE_TIMEOUT = 2.0
FUZZ = {"shards": ["gen-0", "gen-long-0"], "procs_per_shard": 2, "runs": 150000, "seconds": 420}
RULE = (
    "case = (timeframe unit x multiplier, stream of integer-grid OHLCV rows with generated timestamp "
    "pattern regular/jitter/gappy/burst and on/off-boundary start, preload count, append chunk sizes, "
    "number of extra collapse_candles() passes, entry point CandleManager/Indicator/Hexital); oracle = "
    "independent integer resampler label=ceil(ts/tf)*tf compared exactly on (ts,o,h,l,c,v); non-trivial = "
    ">=2 buckets and >=1 bucket holding >=2 candles and (>=2 append calls or >=1 extra collapse pass)"
)
FLOORS = {
    "step_same_bucket": (0.03, None),
    "step_next_bucket": (0.03, None),
    "step_jump_on_boundary": (0.03, None),
    "step_jump_off_boundary": (0.03, None),
    "step_duplicate_ts": (0.03, None),
    "first_on_boundary": (0.03, None),
    "first_off_boundary": (0.03, None),
    "boundary_inside_bucket": (0.25, None),
}
ASSUMPTIONS = [
    "process TZ pinned to UTC (zone independence is C18)",
    "timestamps have second resolution and are non-decreasing",
]


@st.composite
def cases(draw, max_n=40, mode=None):
    tf = draw(gs.timeframe())
    tfs = tf_seconds(tf)
    n = draw(st.integers(0, max_n))
    ts = draw(gs.timestamps(n, tf_s=tfs))
    rows = []
    for t in ts:
        lo = draw(st.integers(1, 20))
        hi = lo + draw(st.integers(0, 10))
        o = draw(st.integers(lo, hi))
        c = draw(st.integers(lo, hi))
        rows.append([t, o, hi, lo, c, draw(st.sampled_from((0, 1, 2, 5, 100)))])
    preload = draw(st.sampled_from((0, 0, 1, 2, n // 2, n)))
    preload = min(preload, n)
    chunks = draw(gs.chunking(n - preload))
    return {
        "tf": tf,
        "stream": rows,
        "preload": preload,
        "chunks": chunks,
        "extra": draw(st.sampled_from((0, 0, 0, 1, 2, 3))),
        "mode": mode or draw(st.sampled_from(("manager", "manager", "indicator", "hexital"))),
        # hexital mode: other member timeframes registered in the same call (each must collapse on its own)
        "siblings": draw(st.lists(gs.timeframe(), max_size=2)),
        "late": draw(st.booleans()),
        # timezone-aware timestamps: the buckets are those of the timestamps' own wall clock, labels keep the offset
        "tzoff": draw(st.sampled_from(TZOFFS)),
        "tf_form": draw(st.sampled_from(("str", "str", "lower", "enum"))),  # how the timeframe is spelled to the library
        # how appended candles are encoded (the same data must land in every timeframe whatever the encoding: C19 judges
        # the encodings as such, here they only vary the path by which candles reach the collapser)
        "enc": draw(st.sampled_from(("candle", "candle", "candle", "dict", "list_first", "list_last"))),
    }


def drive(case):
    """run the library; returns (snapshot, n_append_calls)"""
    from hexital import Hexital
    from hexital.core.candle_manager import CandleManager
    from hexital.indicators import HighLowAverage

    rows, tf = case["stream"], case["tf"]
    pre = min(case.get("preload", 0), len(rows))
    rest = rows[pre:]
    mode = case.get("mode", "manager")
    tz = case.get("tzoff")
    mk_candles = lambda rr_: _mk(rr_, tz)  # noqa: E731
    name = tf  # the upper-case string names the Hexital manager whatever the spelling given
    if case.get("tf_form") == "lower":
        tf = tf.lower()
    elif case.get("tf_form") == "enum":
        from hexital import TimeFrame

        tf = next((m for m in TimeFrame if m.value == tf.upper()), tf)
    if mode == "manager":
        obj = CandleManager(mk_candles(rows[:pre]), timeframe=tf)
        get = lambda: obj.candles  # noqa: E731
        collapse = obj.collapse_candles
    elif mode == "indicator":
        obj = HighLowAverage(candles=mk_candles(rows[:pre]), timeframe=tf)
        get = lambda: obj.candles  # noqa: E731
        collapse = obj.candle_manager.collapse_candles
    else:
        sib = [t for t in dict.fromkeys(case.get("siblings", [])) if t.upper() != name.upper()]
        members = [HighLowAverage(timeframe=t) for t in [tf] + sib]
        if case.get("late"):  # registered in one add_indicator call on a Hexital that already holds the candles
            obj = Hexital("c03", mk_candles(rows[:pre]), [])
            obj.add_indicator(members)
        else:
            obj = Hexital("c03", mk_candles(rows[:pre]), members)
        get = lambda: [snap(obj.candles(t.upper()), readings=False) for t in [name] + sib]  # noqa: E731
        collapse = obj._candles[name.upper()].collapse_candles
    calls = 0
    enc = case.get("enc", "candle")
    for a, b in split_chunks(len(rest), case.get("chunks", [])):
        if enc == "candle" or tz is not None:
            obj.append(mk_candles(rest[a:b]))
        else:
            from hxv.props.c19 import encode

            obj.append(encode(rest[a:b], enc))
        calls += 1
    for _ in range(case.get("extra", 0)):
        collapse()
    if mode == "hexital":
        got = get()
        drive.offsets = utc_offsets([c for t in [name] + sib for c in obj.candles(t.upper())])
        return got[0], calls, dict(zip(sib, got[1:]))
    drive.offsets = utc_offsets(get())
    return snap(get(), readings=False), calls, {}


def run_case(case) -> Result:
    rows, tf = case["stream"], tf_seconds(case["tf"])
    labels = list(set(rr.transitions(rows, tf)))
    want = rr.resample(rows, tf)
    sizes = rr.bucket_sizes(rows, tf)
    try:
        got, calls, others = drive(case)
    except Exception as exc:
        return Result([raises(exc)], False, labels)
    if others:
        labels.append("hexital_sibling_timeframes")
    tz_lost = None
    if case.get("tzoff") is not None and rows:
        labels.append("tz_aware_timestamps")
        if drive.offsets - {case["tzoff"]}:
            tz_lost = Violation("label-lost-its-utc-offset", case["mode"], f"timestamps given with UTC offset {case['tzoff']} min, collapsed candles carry {sorted(map(str, drive.offsets))}")

    # an append boundary that splits a bucket
    pre = min(case.get("preload", 0), len(rows))
    cuts = {pre + b for a, b in split_chunks(len(rows) - pre, case.get("chunks", []))} | {pre}
    inside = any(0 < k < len(rows) and rr.label(rows[k - 1][0], tf) == rr.label(rows[k][0], tf) for k in cuts)
    if inside:
        labels.append("boundary_inside_bucket")
    nontrivial = len(want) >= 2 and max(sizes, default=0) >= 2 and (calls >= 2 or case.get("extra", 0) >= 1)

    viol = [tz_lost] if tz_lost else []
    if sum(r[5] for r in got) != sum(r[5] for r in rows):
        viol.append(Violation("volume-not-conserved", case["mode"], f"{sum(r[5] for r in got)} vs {sum(r[5] for r in rows)}"))
    if any(b[0] is None or a[0] is None or b[0] <= a[0] for a, b in zip(got, got[1:])):
        viol.append(Violation("labels-not-increasing", case["mode"], str([r[0] for r in got][:12])))
    if got != want:
        k = next((i for i, (a, b) in enumerate(zip(got, want)) if a != b), min(len(got), len(want)))
        viol.append(
            Violation(
                "differs-from-reference",
                case["mode"],
                f"bucket {k}: got {got[k] if k < len(got) else None} want {want[k] if k < len(want) else None} "
                f"(len {len(got)} vs {len(want)})",
            )
        )
    for t, g in others.items():
        w = rr.resample(rows, tf_seconds(t))
        if g != w:
            k = next((i for i, (a, b) in enumerate(zip(g, w)) if a != b), min(len(g), len(w)))
            viol.append(Violation("differs-from-reference", "hexital-sibling", f"sibling {t} of {case['tf']} bucket {k}: got {g[k] if k < len(g) else None} want {w[k] if k < len(w) else None} (len {len(g)} vs {len(w)})"))
    return Result(viol, nontrivial, labels)


# ---- enumerated sub-domain: every composition of fixed 7-candle timestamp patterns
def _fixed_patterns():
    T = 300
    base = gs.BASE_DAY
    pats = []
    offsets = [
        [0, 60, 120, 180, 240, 300, 360],
        [1, 61, 299, 300, 301, 600, 601],
        [60, 60, 60, 360, 360, 900, 905],
        [299, 300, 300, 301, 899, 900, 901],
        [0, 300, 600, 900, 1200, 1500, 1800],
        [10, 20, 3000, 3010, 9000, 9001, 9300],
        [150, 450, 451, 452, 1350, 1351, 6000],
        [300, 301, 302, 303, 304, 305, 306],
        [0, 0, 0, 1, 1, 300, 300],
        [7, 607, 1207, 1807, 2407, 3007, 3607],
    ]
    for offs in offsets:
        rows = [[base + o, 10 + i, 12 + i, 8 + i, 11 + i, i + 1] for i, o in enumerate(offs)]
        pats.append(rows)
    return pats, "T5"


def _enumerated():
    pats, tf = _fixed_patterns()
    for rows in pats:
        n = len(rows)
        for mask in range(2 ** (n - 1)):
            chunks, run = [], 1
            for bit in range(n - 1):
                if mask >> bit & 1:
                    chunks.append(run)
                    run = 1
                else:
                    run += 1
            chunks.append(run)
            for pre in (0, 1):
                if pre and chunks[0] != 1:
                    continue
                yield {
                    "tf": tf,
                    "stream": rows,
                    "preload": pre,
                    "chunks": chunks[1:] if pre else chunks,
                    "extra": mask % 2,
                    "mode": "manager",
                }


def _delta_enumeration(length, fill=False):
    """every sequence of `length` timestamp deltas over a 7-letter alphabet around the bucket width, three
    start offsets, every append composition: a small but complete sub-domain of the collapse walk"""
    import itertools

    tf = 300
    alphabet = (0, 1, tf // 2, tf, tf + 1, 2 * tf, 3 * tf - 1)

    def gen():
        for start in (0, 1, tf - 1):
            for deltas in itertools.product(alphabet, repeat=length):
                ts = [gs.BASE_DAY + start]
                for d in deltas:
                    ts.append(ts[-1] + d)
                rows = [[t, 10 + i, 12 + i, 8 + i, 11 + i, i + 1] for i, t in enumerate(ts)]
                n = len(rows)
                for mask in range(2 ** (n - 1)):
                    chunks, run = [], 1
                    for bit in range(n - 1):
                        if mask >> bit & 1:
                            chunks.append(run)
                            run = 1
                        else:
                            run += 1
                    chunks.append(run)
                    yield {"tf": "T5", "stream": rows, "preload": 0, "chunks": chunks, "extra": mask % 2, "mode": "manager", **({"fill": True} if fill else {})}

    return gen


def shards(tier):
    n = 1500 if tier == "quick" else 40000
    out = [Shard(f"gen-{i}", lambda: cases(), n, subject="collapse") for i in range(12)]
    out += [Shard(f"gen-long-{i}", lambda: cases(max_n=120), n // 4, subject="collapse", cost=2) for i in range(3)]
    out.append(Shard("enum-compositions", cases=_enumerated, subject="collapse", exhaustive=True))
    out.append(Shard("enum-deltas-3", cases=_delta_enumeration(3), subject="collapse", exhaustive=True, cost=2))
    if tier == "thorough":
        out.append(Shard("enum-deltas-4", cases=_delta_enumeration(4), subject="collapse", exhaustive=True, cost=20))
    return out

"""C19 - reading state and converting input have no hidden side effects."""
from __future__ import annotations

from copy import deepcopy

from hypothesis import strategies as st

from hxv.gen import configs as gc
from hxv.gen import streams as gs
from hxv.lib import Result, Violation, build_indicator, mk_candle, mk_candles, raises, same, snap, tf_seconds, ts_to_dt
from hxv.ref import resample as rr
from hxv.runner import Shard

PROP = "C19"
FUZZ = {"shards": ["hexital-0", "indicator-0"], "procs_per_shard": 2, "runs": 60000, "seconds": 300}
RULE = (
    "case = a program over an indicator or a Hexital (1-3 timeframes): operations append(chunk, encoding in Candle / dict / "
    "dict with ISO-string timestamp / list with timestamp first / last / no timestamp, single item or list of items) and read-only "
    "calls (str, repr, name, settings, has_reading, reading, prev_reading, as_list, reading_count, reading_period, candles_sum; "
    "Hexital: reading, prev_reading, has_reading, reading_as_list, indicator_settings, get_candles, candles, timeframes, "
    "indicators); model = a twin object that receives the same appends as Candle objects and no reads; after EVERY operation: "
    "state of the object (public and private attributes, deep candle snapshot incl. readings) == twin's, caller-owned dicts and "
    "lists unchanged (deep copy before the call), every Hexital timeframe equals the reference resampler over all rows sent so "
    "far; non-trivial = >=1 read followed by >=1 append"
)
FLOORS = {"list_encoding": (0.3, None), "hexital_multi_tf": (0.25, None)}

IND_READS = ("str", "repr", "name", "settings", "has_reading", "reading", "prev_reading", "as_list", "reading_count", "reading_period", "candles_sum", "candle_manager", "prior_calc")
HX_READS = ("reading", "prev_reading", "has_reading", "reading_as_list", "indicator_settings", "get_candles", "candles", "timeframes", "indicators", "indicator.str", "indicator.settings", "indicator.as_list")
ENCODINGS = ("candle", "candle_single", "dict", "dict_single", "dict_iso", "dict_caps", "list_first", "list_last", "list_first_single", "list_last_single")


@st.composite
def programs(draw, target):
    tf_pool = ("T5", "T10", "H1")
    if target == "indicator":
        cfg = draw(gc.config(draw(st.sampled_from(("EMA", "SMA", "RSI", "MACD", "ATR", "BBANDS", "Supertrend", "STOCH", "OBV", "fn:rising", "Counter", "HighLowAverage")))))
        head = {"target": "indicator", "cfg": cfg, "tf": draw(st.sampled_from((None, None, "T5")))}
    else:
        k = draw(st.integers(1, 3))
        members, seen = [], set()
        for _ in range(k):
            subj = draw(st.sampled_from(("EMA", "SMA", "RSI", "OBV", "HighLowAverage", "ATR", "fn:rising")))
            tf = draw(st.sampled_from((None,) + tf_pool))
            if (subj, tf) in seen:
                continue
            seen.add((subj, tf))
            cfg = draw(gc.config(subj))
            cfg["kw"].pop("round_value", None)
            cfg["kw"].pop("input_value", None)
            if "period" in cfg["kw"]:
                cfg["kw"]["period"] = 2 + len(members)
            members.append({"cfg": cfg, "tf": tf})
        head = {"target": "hexital", "members": members, "tf": draw(st.sampled_from((None, None, None, "T5"))), "pre_reads": draw(st.lists(st.sampled_from(("settings", "str", "name", "has_reading", "as_list")), max_size=3))}
    n = draw(st.integers(1, 30))
    step = draw(st.sampled_from((60, 60, 150, 300, 600)))
    start = gs.BASE_DAY + draw(st.sampled_from((0, 60, 90, 299)))
    prices = draw(gs.price_rows(n))
    with_ts = True if (head.get("tf") or any(m["tf"] for m in head.get("members", []))) else draw(st.sampled_from((True, True, False)))
    if draw(st.integers(0, 3)) == 0:  # encodings must agree on any candle data, also a series that touches zero
        for r in prices:
            z = draw(st.sampled_from((0, 0, 0, 1, 2)))
            if z == 1:
                r[0] = r[2] = 0.0
            elif z == 2:
                r[0] = r[1] = r[2] = r[3] = 0.0
    if draw(st.integers(0, 3)) == 0:  # fractional lots (dyadic, so that sums are exact in any order)
        for r in prices:
            r[4] = r[4] + draw(st.sampled_from((0, 0.25, 0.5, 0.75, 2.625)))
    rows = [[start + i * step if with_ts else None] + r for i, r in enumerate(prices)]
    ops, pos = [], 0
    reads = IND_READS if target == "indicator" else HX_READS
    while pos < n and len(ops) < 40:
        if draw(st.integers(0, 9)) == 0:
            # recompute an older index (done to the twin as well): the indicator's cursor then rests on that candle,
            # which is the state in which a read-only call that moved it would show
            ops.append({"op": "cursor", "index": draw(st.integers(0, 40))})
        if draw(st.integers(0, 2)) == 0:
            ops.append({"op": "read", "what": draw(st.sampled_from(reads)), "arg": draw(st.integers(0, 5))})
        else:
            size = min(n - pos, draw(st.sampled_from((1, 1, 1, 2, 3, 7))))
            enc = draw(st.sampled_from(ENCODINGS))
            if "single" in enc:
                size = 1
            ops.append({"op": "append", "rows": rows[pos : pos + size], "enc": enc})
            pos += size
    ops.append({"op": "read", "what": draw(st.sampled_from(reads)), "arg": 0})
    head["ops"] = ops
    if target == "hexital" and len(head["members"]) >= 2 and draw(st.integers(0, 3)) == 0:
        # the last member (possibly on a timeframe of its own) joins through add_indicator after some appends:
        # the candles appended from then on must reach its timeframe like every other
        head["late_member_at"] = draw(st.integers(1, max(1, len(ops) - 1)))
    # a candle lifespan (steady state: one candle in, one out) in a third of the programs
    head["lifespan"] = draw(st.sampled_from((None, None, 4 * step, 9 * step)))
    # a Hexital-level candlestick type: the default manager converts the Candle objects it is given in place, so the
    # other timeframes must have taken their copy first - Candle objects (the twin) and dicts/lists must still agree
    head["hx_ha"] = bool(target == "hexital" and draw(st.integers(0, 3)) == 0)
    return head


def encode(rows, enc):
    """-> the object handed to append()"""
    def one(r, kind):
        ts, o, h, l, c, v = r
        dt = ts_to_dt(ts)
        if kind == "candle":
            return mk_candle(r)
        if kind == "dict":
            d = {"open": o, "high": h, "low": l, "close": c, "volume": v}
            if dt is not None:
                d["timestamp"] = dt
            return d
        if kind == "dict_iso":
            d = {"open": o, "high": h, "low": l, "close": c, "volume": v}
            if dt is not None:
                d["timestamp"] = dt.isoformat()
            return d
        if kind == "dict_caps":
            d = {"Open": o, "High": h, "Low": l, "Close": c, "Volume": v}
            if dt is not None:
                d["Timestamp"] = dt
            return d
        if kind == "list_first":
            return ([dt] if dt is not None else []) + [o, h, l, c, v]
        return [o, h, l, c, v] + ([dt] if dt is not None else [])

    kind = enc.replace("_single", "")
    items = [one(r, kind) for r in rows]
    return items[0] if enc.endswith("_single") else items


def _public(obj):
    """public attributes of an indicator and, recursively, of its helpers (private fields such as caches are
    implementation detail: they are judged through what the accessors return, see _observe)"""
    from hexital.core.indicator import Indicator

    out = {}
    for k, v in sorted(vars(obj).items()):
        if k == "candles" or k.startswith("_"):
            continue
        if k in ("sub_indicators", "managed_indicators"):
            out[k] = {name: _public(sub) for name, sub in v.items()}
        elif isinstance(v, Indicator):
            out[k] = _public(v)
        elif k == "candlestick_type":
            out[k] = type(v).__name__
        elif callable(v):
            out[k] = getattr(v, "__name__", "callable")
        else:
            out[k] = repr(v)
    return out


def _observe_indicator(ind):
    """what a user can see of an indicator through its read-only API"""
    cs = vars(ind).get("candles")
    out = {"has_candles_attr": cs is not None, "public": _public(ind)}
    if cs is None:
        return out
    out["candles"] = snap(cs)
    out["name"] = ind.name
    out["settings"] = repr(ind.settings)
    out["as_list"] = ind.as_list()
    # the accessors that answer "at the cursor" are each asked on a copy of their own: asked one after the other on
    # the same object, an accessor that moved the cursor would move it for the twin's observation just the same
    out["has_reading"] = deepcopy(ind).has_reading
    out["reading_count"] = ind.reading_count()
    if cs:
        out["reading"] = deepcopy(ind).reading()
        out["prev_reading"] = deepcopy(ind).prev_reading()
        out["reading_period3"] = deepcopy(ind).reading_period(3)
        out["candles_sum2"] = deepcopy(ind).candles_sum(2, "close")
    return out


def _state(obj):
    """observed on a deep copy, so that observing neither disturbs the object nor counts as a read on the twin"""
    return _observe_indicator(deepcopy(obj))


def _hx_state(hx):
    hx = deepcopy(hx)
    out = {
        "managers": {k: (snap(m.candles), m.timeframe, m.timeframe_fill, repr(m.candles_lifespan)) for k, m in hx._candles.items()},
        "attrs": {k: (type(v).__name__ if k == "candlestick_type" else repr(v)) for k, v in sorted(vars(hx).items()) if not k.startswith("_")},
        "indicator_settings": repr(hx.indicator_settings),
        "timeframes": sorted(hx.timeframes),
        "indicators": {},
    }
    for k, ind in hx.indicators.items():
        o = _observe_indicator(ind)
        if o.get("has_candles_attr"):
            o["hx.reading"] = hx.reading(k)
            o["hx.prev_reading"] = hx.prev_reading(k)
            o["hx.has_reading"] = hx.has_reading(k)
            o["hx.reading_as_list"] = hx.reading_as_list(k)
        out["indicators"][k] = o
    return out


def _do_read(obj, what, arg, is_hx, names):
    name = names[arg % len(names)] if names else "none"
    if not is_hx:
        if what == "str":
            return str(obj)
        if what == "repr":
            return repr(obj)
        if what in ("name", "settings", "has_reading", "candle_manager", "prior_calc"):
            return getattr(obj, what)
        if what == "reading":
            return obj.reading() if obj.candles else None
        if what == "prev_reading":
            return obj.prev_reading()
        if what == "as_list":
            return obj.as_list()
        if what == "reading_count":
            return obj.reading_count()
        if what == "reading_period":
            return obj.reading_period(arg + 1) if obj.candles else None
        if what == "candles_sum":
            return obj.candles_sum(arg + 1, "close") if obj.candles else None
    else:
        if what in ("reading", "prev_reading", "has_reading", "reading_as_list"):
            return getattr(obj, what)(name)
        if what in ("indicator_settings", "timeframes", "indicators"):
            return getattr(obj, what)
        if what == "get_candles":
            return obj.get_candles()
        if what == "candles":
            return obj.candles(("T5", "T10", "H1", None)[arg % 4])
        if what.startswith("indicator.") and names:
            ind = obj.indicator(name)
            return {"str": lambda: str(ind), "settings": lambda: ind.settings, "as_list": lambda: ind.as_list()}[what.split(".")[1]]()
    return None


def _make(case, reads=False):
    from hexital import Hexital

    from datetime import timedelta

    life = timedelta(seconds=case["lifespan"]) if case.get("lifespan") else None
    if case["target"] == "indicator":
        return build_indicator(case["cfg"], **({"timeframe": case["tf"]} if case.get("tf") else {}), **({"candles_lifespan": life} if life else {})), []
    inds = [build_indicator(m["cfg"], **({"timeframe": m["tf"]} if m["tf"] else {})) for m in case["members"]]
    names = [i.name for i in inds]
    if reads:  # read-only calls on the members before the Hexital adopts them (the twin's members are not read)
        for ind in inds:
            for what in case.get("pre_reads", []):
                str(ind) if what == "str" else ind.as_list() if what == "as_list" else getattr(ind, what)
    first = inds[:-1] if case.get("late_member_at") else inds
    hx = Hexital("c19", [], first, candles_lifespan=life or timedelta(hours=12), **({"timeframe": case["tf"]} if case.get("tf") else {}), **({"candlestick_type": "HA"} if case.get("hx_ha") else {}))
    hx._c19_late = inds[-1] if case.get("late_member_at") else None
    return hx, names


def run_case(case) -> Result:
    is_hx = case["target"] == "hexital"
    labels = []
    try:
        real, names = _make(case, reads=True)
        twin, _ = _make(case)
    except Exception:
        return Result([], False, ["setup_raises"])
    if is_hx and len(real._candles) >= 2:
        labels.append("hexital_multi_tf")
        if case.get("hx_ha"):
            labels.append("hexital_ha_multi_tf")
    state = _hx_state if is_hx else _state
    sent, read_then_append, seen_read = [], False, False
    all_names = names
    if is_hx and case.get("late_member_at") is not None:
        names = all_names[:-1]  # what is registered so far
    for k, op in enumerate(case["ops"]):
        where = f"op {k} {op['op']}:{op.get('what', op.get('enc'))}"
        if is_hx and case.get("late_member_at") == k:
            try:
                for obj in (real, twin):
                    obj.add_indicator(obj._c19_late)
                    obj.calculate()
                names = all_names
                labels.append("member_added_later")
            except Exception:
                return Result([], read_then_append, labels + ["twin_raises"])
        if op["op"] == "cursor":
            try:
                for obj in (real, twin):
                    ind = obj.indicator(names[0]) if is_hx else obj
                    n = len(ind.candles)
                    if n >= 2 and ind.name in ind.candles[op["index"] % (n - 1)].indicators:
                        ind.calculate_index(op["index"] % (n - 1))
                        labels.append("cursor_on_older_candle")
            except Exception:
                return Result([], read_then_append, labels + ["twin_raises"])
        elif op["op"] == "read":
            seen_read = True
            try:
                _do_read(real, op["what"], op.get("arg", 0), is_hx, names)
            except Exception as exc:
                v = raises(exc, "read:" + op["what"])
                v.detail = where + ": " + v.detail
                return Result([v], read_then_append, labels)
        elif op["op"] == "append":
            if seen_read:
                read_then_append = True
            if op["enc"].startswith("list"):
                labels.append("list_encoding")
            payload = encode(op["rows"], op["enc"])
            before = deepcopy(payload) if not op["enc"].startswith("candle") else None
            try:
                twin.append(mk_candles(op["rows"]))
            except Exception:
                return Result([], read_then_append, labels + ["twin_raises"])  # totality is C09's business
            try:
                real.append(payload)
            except Exception as exc:
                v = raises(exc, "append:" + op["enc"])
                v.detail = where + ": " + v.detail
                return Result([v], read_then_append, labels)
            sent += op["rows"]
            if before is not None and not same(before, payload):
                return Result([Violation("caller-container-modified", "append:" + op["enc"].replace("_single", ""), f"{where}: passed {before!r}, afterwards {payload!r}", "append")], read_then_append, labels)
            if is_hx and sent and sent[0][0] is not None and not case.get("lifespan") and not case.get("hx_ha"):
                for mname, m in real._candles.items():
                    if m.timeframe:
                        want = rr.resample(sent, tf_seconds(m.timeframe))
                        got = snap(m.candles, readings=False)
                        if got != want:
                            return Result([Violation("timeframe-did-not-receive-the-candles", "append:" + op["enc"].replace("_single", ""), f"{where}: manager {mname} holds {len(got)} candles {got[-2:]} but the rows sent so far resample to {len(want)} {want[-2:]}", "append")], read_then_append, labels)
        a, b = _scrub(state(real)), _scrub(state(twin))
        if not same(a, b):
            site = ("read:" + op["what"]) if op["op"] == "read" else "cursor:calculate_index" if op["op"] == "cursor" else "append:" + op["enc"].replace("_single", "")
            return Result([Violation("state-differs-from-twin", site, f"{where}: " + _first_difference(a, b), site.split(":")[0])], read_then_append, labels)
    return Result([], read_then_append, sorted(set(labels)))


def _scrub(x):
    """object addresses in default reprs (a candlestick-type object inside a settings dict) are not state"""
    import re

    if isinstance(x, str):
        return re.sub(r" at 0x[0-9a-fA-F]+", "", x)
    if isinstance(x, dict):
        return {k: _scrub(v) for k, v in x.items()}
    if isinstance(x, (list, tuple)):
        return type(x)(_scrub(v) for v in x)
    return x


def _first_difference(a, b, path=""):
    if isinstance(a, dict) and isinstance(b, dict):
        for k in sorted(set(a) | set(b), key=str):
            if k not in a or k not in b:
                return f"{path}/{k}: present only in {'object' if k in a else 'twin'}"
            if not same(a[k], b[k]):
                return _first_difference(a[k], b[k], f"{path}/{k}")
    if isinstance(a, (list, tuple)) and isinstance(b, (list, tuple)):
        if len(a) != len(b):
            return f"{path}: length {len(a)} vs {len(b)}"
        for i, (x, y) in enumerate(zip(a, b)):
            if not same(x, y):
                return _first_difference(x, y, f"{path}[{i}]")
    return f"{path}: {a!r} vs twin {b!r}"[:400]


def shards(tier):
    n = 250 if tier == "quick" else 6000
    out = [Shard(f"indicator-{i}", lambda: programs("indicator"), n, subject="indicator") for i in range(7)]
    out += [Shard(f"hexital-{i}", lambda: programs("hexital"), n, subject="hexital", cost=2) for i in range(9)]
    return out

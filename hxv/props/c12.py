"""C12 - gap filling yields a contiguous series of flat, zero-volume candles."""
from __future__ import annotations

from hypothesis import strategies as st

from hxv.gen import streams as gs
from hxv.lib import mk_candles as _mk
from hxv.lib import TZOFFS, Result, Violation, mk_candles, raises, snap, split_chunks, tf_seconds
from hxv.ref import resample as rr
from hxv.runner import Shard

PROP = "C12"
CASE_TIMEOUT = 2.0
FUZZ = {"shards": ["gen-0", "gen-long-0"], "procs_per_shard": 2, "runs": 150000, "seconds": 420}
RULE = (
    "case = (timeframe, integer-grid stream whose timestamps have several gaps of 2..40 buckets, duplicates and "
    "bursts, preload count, append chunk sizes, entry point CandleManager/Indicator/Hexital member); oracles = "
    "(1) reference resampler with fill, exact; (2) contiguity t[i+1]-t[i]==tf; (3) every candle absent from the "
    "library's own no-fill run is flat at the previous close with volume 0; (4) real buckets equal the no-fill run; "
    "(5) equals the batch run; non-trivial = >=1 inserted candle and >=2 append calls"
)
FLOORS = {"gap_spans_append_boundary": (0.3, None), "multi_gap": (0.3, None)}


@st.composite
def cases(draw, max_n=40):
    tf = draw(gs.timeframe())
    tfs = tf_seconds(tf)
    n = draw(st.integers(0, max_n))
    step = max(1, draw(st.sampled_from((tfs // 3, tfs // 2, tfs, tfs, 2 * tfs))))
    k0 = draw(st.integers(0, 50))
    t = gs.BASE_DAY + k0 * tfs + draw(st.sampled_from((0, 0, 1, tfs // 2, max(tfs - 1, 0))))
    rows = []
    for _ in range(n):
        lo = draw(st.integers(1, 20))
        hi = lo + draw(st.integers(0, 10))
        rows.append([t, draw(st.integers(lo, hi)), hi, lo, draw(st.integers(lo, hi)), draw(st.sampled_from((0, 1, 2, 5, 100)))])
        t += draw(st.sampled_from((step,) * 5 + (0, 1, 2 * tfs, 2 * tfs + 1, 3 * tfs, 5 * tfs, 17 * tfs - 1, 40 * tfs)))
    preload = min(n, draw(st.sampled_from((0, 0, 1, 2, n // 2, n))))
    return {
        "tf": tf,
        "stream": rows,
        "preload": preload,
        "chunks": draw(gs.chunking(n - preload)),
        "mode": draw(st.sampled_from(("manager", "manager", "indicator", "hexital"))),
        # a candle lifespan on top: what is retained is still contiguous and is the tail of the untrimmed series
        "lifespan": draw(st.sampled_from((None, None, None, 3 * tfs, 10 * tfs, 7 * tfs + 13, 3600))),
        "tzoff": draw(st.sampled_from(TZOFFS)),  # timezone-aware timestamps (fixed offset)
    }


def drive(case, fill=True, batch=False):
    from hexital import Hexital
    from hexital.core.candle_manager import CandleManager
    from hexital.indicators import HighLowAverage

    rows, tf = case["stream"], case["tf"]
    mk_candles = lambda rr_: _mk(rr_, case.get("tzoff"))  # noqa: E731
    pre = len(rows) if batch else min(case.get("preload", 0), len(rows))
    rest = rows[pre:]
    mode = case.get("mode", "manager")
    life = {}
    if case.get("lifespan") and mode != "hexital":  # a Hexital builds member timeframes from an already trimmed base: not judged here
        from datetime import timedelta

        life = {"candles_lifespan": timedelta(seconds=case["lifespan"])}
    if mode == "manager":
        obj = CandleManager(mk_candles(rows[:pre]), timeframe=tf, timeframe_fill=fill, **life)
        get = lambda: obj.candles  # noqa: E731
    elif mode == "indicator":
        obj = HighLowAverage(candles=mk_candles(rows[:pre]), timeframe=tf, timeframe_fill=fill, **life)
        get = lambda: obj.candles  # noqa: E731
    else:
        obj = Hexital("c12", mk_candles(rows[:pre]), [HighLowAverage(timeframe=tf)], timeframe_fill=fill, **life)
        get = lambda: obj.candles(tf.upper())  # noqa: E731
    calls = 0
    for a, b in split_chunks(len(rest), case.get("chunks", [])):
        obj.append(mk_candles(rest[a:b]))
        calls += 1
    return snap(get(), readings=False), calls


def run_case(case) -> Result:
    rows, tf = case["stream"], tf_seconds(case["tf"])
    mode = case.get("mode", "manager")
    want = rr.resample(rows, tf, fill=True)
    plain = rr.resample(rows, tf)
    inserted = len(want) - len(plain)
    labels = []
    if case.get("lifespan") and want and mode != "hexital":
        labels.append("with_lifespan")
        want = [r for r in want if r[0] >= want[-1][0] - case["lifespan"]]
    gaps = sum(1 for a, b in zip(plain, plain[1:]) if b[0] - a[0] > tf)
    if gaps >= 2:
        labels.append("multi_gap")
    pre = min(case.get("preload", 0), len(rows))
    cuts = {pre + b for a, b in split_chunks(len(rows) - pre, case.get("chunks", []))} | {pre}
    if any(0 < k < len(rows) and rr.label(rows[k][0], tf) - rr.label(rows[k - 1][0], tf) > tf for k in cuts):
        labels.append("gap_spans_append_boundary")
    try:
        got, calls = drive(case)
        nofill, _ = drive(case, fill=False)
        batch, _ = drive(case, batch=True)
    except Exception as exc:
        return Result([raises(exc)], False, labels)

    viol = []
    if any(b[0] - a[0] != tf for a, b in zip(got, got[1:])):
        k = next(i for i, (a, b) in enumerate(zip(got, got[1:])) if b[0] - a[0] != tf)
        viol.append(Violation("not-contiguous", mode, f"candles {k},{k + 1}: {got[k][0]} -> {got[k + 1][0]} (tf {tf})"))
    real = {r[0]: r for r in nofill}
    prev = None
    for r in got:
        if r[0] not in real:
            if prev is None and "with_lifespan" in labels and r[5] == 0 and r[1] == r[2] == r[3] == r[4]:
                pass  # the candle it was copied from has been trimmed away; its value is judged against the reference below
            elif prev is None or not (r[1] == r[2] == r[3] == r[4] == prev[4]) or r[5] != 0:
                viol.append(Violation("inserted-candle-not-flat-at-previous-close", mode, f"inserted {r} after {prev}"))
                break
        elif r != real[r[0]]:
            viol.append(Violation("real-bucket-differs-from-no-fill-run", mode, f"{r} vs {real[r[0]]}"))
            break
        prev = r
    if [r for r in got if r[0] in real] != nofill and not viol:
        viol.append(Violation("real-bucket-missing", mode, f"{len([r for r in got if r[0] in real])} vs {len(nofill)}"))
    if got != batch:
        k = next((i for i, (a, b) in enumerate(zip(got, batch)) if a != b), min(len(got), len(batch)))
        viol.append(Violation("schedule-dependent", mode, f"candle {k}: appended {got[k] if k < len(got) else None} batch {batch[k] if k < len(batch) else None}"))
    if got != want:
        k = next((i for i, (a, b) in enumerate(zip(got, want)) if a != b), min(len(got), len(want)))
        viol.append(Violation("differs-from-reference", mode, f"candle {k}: got {got[k] if k < len(got) else None} want {want[k] if k < len(want) else None} (len {len(got)} vs {len(want)})"))
    return Result(viol, inserted >= 1 and calls >= 2, labels, {"inserted_candles": inserted})


def _delta_enumeration(length):
    from hxv.props.c03 import _delta_enumeration as base

    def gen():
        for c in base(length)():
            c.pop("extra", None)
            yield c

    return gen


def shards(tier):
    n = 1200 if tier == "quick" else 30000
    out = [Shard(f"gen-{i}", lambda: cases(), n, subject="fill") for i in range(12)]
    out += [Shard(f"gen-long-{i}", lambda: cases(max_n=100), n // 4, subject="fill", cost=2) for i in range(4)]
    out.append(Shard("enum-deltas-3", cases=_delta_enumeration(3), subject="fill", exhaustive=True, cost=2))
    if tier == "thorough":
        out.append(Shard("enum-deltas-4", cases=_delta_enumeration(4), subject="fill", exhaustive=True, cost=20))
    return out

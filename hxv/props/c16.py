"""C16 - pattern and movement functions are causal and index-consistent."""
from __future__ import annotations

from hypothesis import strategies as st

from hxv.gen import streams as gs
from hxv.lib import MOVEMENT_MAP, PATTERN_MAP, Result, Violation, build_indicator, mk_candles, raises, same, split_chunks
from hxv.runner import Shard

PROP = "C16"
FUZZ = {"shards": ["cross", "highestbar", "doji", "rising"], "procs_per_shard": 2, "runs": 150000, "seconds": 420}
RULE = (
    "case = (function of MOVEMENT_MAP / PATTERN_MAP / above / below, candle list of 1..40 with two synthetic readings A,B on a "
    "tiny integer grid with missing entries (p in {0,0.2,0.5}), length 1..8 / lookback None or 1..6); for EVERY valid index i "
    "(positive and its negative twin) the three-way agreement f(c,index=i) == f(c[:i+1]) (default index) == f(c,index=i-len(c)) "
    "and no exception; plus the function wrapped as Amorph over the same candles: live (appended in chunks) column == batch "
    "column; non-trivial = list of >=3 candles (so later candles exist and windows reach the start) with >=1 missing reading "
    "or >=12 candles for patterns"
)
FLOORS = {"has_missing": (0.3, None)}

ONE = ("rising", "falling", "mean_rising", "mean_falling", "highest", "lowest", "highestbar", "lowestbar", "value_range")
TWO = ("cross", "crossover", "crossunder", "above", "below")
NOARG = ("positive", "negative")
PATS = tuple(PATTERN_MAP)
FUNCS = ONE + TWO + NOARG + PATS


def _fn(name):
    from hexital.analysis import movement

    if name in ("above", "below"):
        return getattr(movement, name)
    return (PATTERN_MAP | MOVEMENT_MAP)[name]


@st.composite
def cases(draw, name, max_n=40):
    n = draw(st.integers(0, 1)) if draw(st.integers(0, 11)) == 0 else draw(st.integers(1, max_n))
    rows = draw(gs.streams(n, n, with_ts=False, grid=(0.25, 2) if name in PATS else None))
    pmiss = draw(st.sampled_from((0, 0.2, 0.5)))
    miss = st.sampled_from((False,) * 10 if pmiss == 0 else (True,) * 2 + (False,) * 8 if pmiss == 0.2 else (True, False))
    val = st.integers(0, 4)
    A = [None if draw(miss) else draw(val) for _ in range(n)]
    B = [None if draw(miss) else draw(val) for _ in range(n)]
    kw = {}
    if name in ONE:
        kw["indicator"] = draw(st.sampled_from(("A", "A", "close", "volume")))
        if draw(st.booleans()):
            kw["length"] = draw(st.integers(2 if name == "value_range" else 1, 8))
    elif name in TWO:
        kw["indicator_one" if name not in ("above", "below") else "indicator"] = "A"
        kw["indicator_two"] = draw(st.sampled_from(("B", "B", "close")))
        if name not in ("above", "below") and draw(st.booleans()):
            kw["length"] = draw(st.integers(1, 8))
    elif name in PATS:
        if draw(st.booleans()):
            kw["lookback"] = draw(st.one_of(st.integers(1, 6), st.integers(7, 30)))
    return {"fn": name, "kw": kw, "stream": rows, "A": A, "B": B, "chunks": draw(gs.chunking(n))}


def _candles(case, upto=None):
    rows = case["stream"] if upto is None else case["stream"][:upto]
    cs = mk_candles(rows)
    for c, a, b in zip(cs, case["A"], case["B"]):
        if a is not None:
            c.indicators["A"] = a
        if b is not None:
            c.indicators["B"] = b
    return cs


def run_case(case) -> Result:
    name, kw = case["fn"], case["kw"]
    f = _fn(name)
    n = len(case["stream"])
    labels = []
    if any(v is None for v in case["A"] + case["B"]):
        labels.append("has_missing")
    full = _candles(case)
    viol = []
    if n == 0:  # nothing to look at: the default position must not raise either (and there is nothing to report)
        labels.append("empty_list")
        try:
            got = f([], **kw)
            if got:
                viol.append(Violation("reports-on-an-empty-list", "empty", f"{name}({kw}) on no candles: {got!r}", name))
        except Exception as exc:
            v = raises(exc, name)
            v.detail = "on an empty candle list: " + v.detail
            viol.append(v)
    for i in range(n):
        try:
            at_pos = f(full, index=i, **kw)
            at_neg = f(full, index=i - n, **kw)
            on_cut = f(_candles(case, i + 1), **kw)
        except Exception as exc:
            v = raises(exc, name)
            v.detail = f"index {i} of {n}: " + v.detail
            viol.append(v)
            break
        if not same(at_pos, on_cut):
            viol.append(Violation("depends-on-later-candles", "index-vs-truncated", f"{name}({kw}) at index {i} of {n}: {at_pos!r} but on candles[:{i + 1}] {on_cut!r}", name))
            break
        if name in NOARG and not same(f(full[i]), at_pos):  # documented: a single Candle may be given instead of a list
            viol.append(Violation("single-candle-form-differs", "candle-vs-list", f"{name}(candle {i}) = {f(full[i])!r} but {name}(candles, index={i}) = {at_pos!r}", name))
            break
        if not same(at_pos, at_neg):
            viol.append(Violation("negative-index-differs", "index-vs-negative", f"{name}({kw}) index {i}: {at_pos!r} but index {i - n}: {at_neg!r}", name))
            break

    # the Amorph wrapper: live column == batch column
    if not viol and name not in ("above", "below"):
        cfg = {"analysis": name, "kw": kw}
        try:
            batch = build_indicator(cfg, candles=_candles(case))
            batch.calculate()
            live = build_indicator(cfg, candles=[])
            src = _candles(case)
            for a, b in split_chunks(n, case.get("chunks", [])):
                live.append(src[a:b])
            live.calculate()
            # the settings handed over as an `args` dict that the caller goes on using (changes, empties) afterwards
            from hexital.indicators import Amorph

            shared = dict(kw)
            held = Amorph(analysis=f, args=shared, candles=_candles(case))
            shared["length"] = 1 + kw.get("length", 1)
            shared["lookback"] = 1 + (kw.get("lookback") or 1)
            held.calculate()
            if not same(held.as_list(), batch.as_list()):
                k = next(i for i, (x, y) in enumerate(zip(held.as_list(), batch.as_list())) if not same(x, y))
                viol.append(Violation("wrapper-settings-follow-the-callers-dict", "amorph", f"{name}({kw}) candle {k}: built from an args dict that was changed afterwards reads {held.as_list()[k]!r}, built from keywords {batch.as_list()[k]!r}", name))
            if not viol and not same(batch.as_list(), live.as_list()):
                k = next(i for i, (x, y) in enumerate(zip(batch.as_list(), live.as_list())) if not same(x, y))
                viol.append(Violation("wrapper-live-differs-from-batch", "amorph", f"{name}({kw}) candle {k}: batch {batch.as_list()[k]!r} live {live.as_list()[k]!r}", name))
        except Exception as exc:
            v = raises(exc, name)
            v.detail = "Amorph wrapper: " + v.detail
            viol.append(v)
    nontrivial = n >= 3 and ("has_missing" in labels or name in NOARG + PATS) and (name not in PATS or n >= 12)
    return Result(viol, nontrivial, labels, {"index_triples": n})


def _enumerated(name):
    """all (index, length) pairs on short fixed lists"""

    def gen():
        base = gs.BASE_DAY
        series = [
            ([1, 2, 3, 2, 1, 2, 3, 4], [2, 2, 2, 2, 2, 2, 2, 2]),
            ([3, None, 1, None, 2, 2, None, 0], [None, 1, 1, 3, None, 2, 0, 4]),
            ([0, 0, 0, 0, 0, 0, 0, 0], [0, 1, 0, 1, 0, 1, 0, 1]),
            ([4, 3, 2, 1, 0, 1, 2, 3], [0, 1, 2, 3, 4, 3, 2, 1]),
        ]
        for A, B in series:
            for n in range(1, 9):
                rows = [[None, 10.0 + (i % 3), 12.0 + (i % 3), 9.0, 10.0 + ((i + 1) % 3), i % 2] for i in range(n)]
                for length in range(1, 9):
                    kw = {}
                    if name in ONE:
                        if name == "value_range" and length < 2:
                            continue
                        kw = {"indicator": "A", "length": length}
                    elif name in ("above", "below"):
                        if length > 1:
                            continue
                        kw = {"indicator": "A", "indicator_two": "B"}
                    elif name in TWO:
                        kw = {"indicator_one": "A", "indicator_two": "B", "length": length}
                    elif length > 1:
                        continue
                    yield {"fn": name, "kw": kw, "stream": rows, "A": A[:n], "B": B[:n], "chunks": [1] * n}

    return gen


def shards(tier):
    n = 500 if tier == "quick" else 12000
    out = [Shard(f, (lambda f=f: cases(f)), n, subject=f) for f in FUNCS]
    out += [Shard("enum:" + f, cases=_enumerated(f), subject=f, exhaustive=True, cost=0.3) for f in ONE + TWO + NOARG]
    return out

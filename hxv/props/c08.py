"""C08 - indicators inside a Hexital behave exactly like the same indicators standalone."""
from __future__ import annotations

from datetime import timedelta

from hypothesis import strategies as st

from hxv.gen import configs as gc
from hxv.gen import streams as gs
from hxv.lib import MOVEMENT_MAP, PATTERN_MAP, Result, Violation, build_indicator, mk_candles, raises, same, snap, split_chunks, tf_seconds
from hxv.runner import Shard

PROP = "C08"
RULE = (
    "case = Hexital with 1-5 members from the registry (repeated and mixed timeframes; each given as Indicator object, as "
    "configuration dict, or as the dict obtained from an indicator's .settings), Hexital-level timeframe / fill / lifespan / "
    "candlestick type, regime stream, supply mode (constructor, appends in chunks, or both); oracle = differential against "
    "standalone twins with the effective configuration (timeframe = the member's own else the Hexital's; fill, lifespan, "
    "candlestick type = the Hexital's) fed the same stream (same chunks when a lifespan is set): member candles (ts, OHLCV) and "
    "readings by value must be equal; base candles keep their raw OHLCV without a candlestick type; a settings dict rebuilds an "
    "indicator with equal settings; non-trivial = (>=2 members or >=2 timeframes) and every compared member has a non-None reading"
)
FLOORS = {"form:settings": (0.2, None), "mixed_timeframes": (0.35, None), "ha": (0.1, None)}
MEMBER_TFS = {None: (None, None, "T5", "T10", "H1", "t5", "enum:MINUTE10"), "T5": (None, None, "T5", "T10", "T15", "H1", "t10", "t5"), "T1": (None, "T1", "T5", "T10", "t5", "enum:MINUTE5")}


def _tf_arg(tf):
    """a member timeframe as the user may spell it: 'T5', 't5' or the TimeFrame enum"""
    if tf and tf.startswith("enum:"):
        from hexital import TimeFrame

        return getattr(TimeFrame, tf[5:])
    return tf


def _tf_norm(tf):
    if tf and tf.startswith("enum:"):
        from hexital import TimeFrame

        return getattr(TimeFrame, tf[5:]).value
    return tf.upper() if tf else tf


def _map_key(cfg):
    from hexital import indicators as I
    from hexital.indicators import INDICATOR_MAP

    cls = getattr(I, cfg["cls"])
    return next(k for k, v in INDICATOR_MAP.items() if v is cls)


@st.composite
def cases(draw, max_n=70):
    hx_tf = draw(st.sampled_from((None, None, None, "T5", "T1")))
    ha = draw(st.integers(0, 5)) == 0
    fill = bool(draw(st.integers(0, 3)) == 0)
    k = draw(st.integers(1, 5))
    members = []
    for _ in range(k):
        cfg = draw(gc.config())
        for key in list(cfg["kw"]):
            if "period" in key and isinstance(cfg["kw"][key], int):
                cfg["kw"][key] = min(cfg["kw"][key], draw(st.integers(2, 8)))
        if cfg.get("cls") == "MACD" and cfg["kw"]["fast_period"] >= cfg["kw"]["slow_period"]:
            cfg["kw"]["slow_period"] = cfg["kw"]["fast_period"] + 1
        members.append({"cfg": cfg, "tf": draw(st.sampled_from(MEMBER_TFS[hx_tf])), "form": draw(st.sampled_from(("object", "dict", "settings", "dict-callable"))), "late": draw(st.integers(0, 4)) == 0})
    n = draw(st.integers(0, max_n))
    step = draw(st.sampled_from((60, 60, 150, 300)))
    pattern = draw(st.sampled_from(("regular", "regular", "gappy", "jitter")))
    ts = draw(gs.timestamps(n, tf_s=300, pattern=pattern, step=step))
    rows = [[t] + r for t, r in zip(ts, draw(gs.price_rows(n)))]
    supply = draw(st.sampled_from(("constructor", "append", "both")))
    lifespan = None
    if supply == "append" and draw(st.integers(0, 3)) == 0:
        lifespan = draw(st.sampled_from((600, 3600, 7200, 20000)))
    pre = n if supply == "constructor" else 0 if supply == "append" else draw(st.integers(0, n))
    return {"decoy": draw(st.integers(0, 5)) == 0, "members": members, "tf": hx_tf, "fill": fill, "ha": ha, "lifespan": lifespan, "stream": rows, "preload": pre, "chunks": draw(gs.chunking(n - pre))}


def _as_form(member):
    """-> what is handed to Hexital for this member, or a Violation for a failed settings round trip"""
    cfg, tf, form = member["cfg"], member["tf"], member["form"]
    extra = {"timeframe": _tf_arg(tf)} if tf else {}
    if form == "object":
        return build_indicator(cfg, **extra)
    if form in ("dict", "dict-callable"):
        if "analysis" in cfg:  # analysis arguments go under "args" ("indicator" as a flat key would name a class)
            fn = cfg["analysis"]
            if form == "dict-callable":  # the documented third spelling: the function object itself
                from hexital.analysis import MOVEMENT_MAP, PATTERN_MAP

                fn = {**PATTERN_MAP, **MOVEMENT_MAP}[fn]
            return dict({"analysis": fn, "args": dict(cfg["kw"])}, **extra)
        return dict({"indicator": _map_key(cfg)}, **cfg["kw"], **extra)
    return build_indicator(cfg, **extra).settings


def _values(ind):
    """readings by value (not by key): top-level series and every dict field"""
    return ind.as_list()


@st.composite
def chain_form_cases(draw):
    """a member that reads another member's output, source listed first, each given in its own form (object / dict /
    settings): the Hexital must keep the given order whatever the forms, so the dependant equals the same two
    indicators run in that order over one candle list"""
    from hxv.props.c01 import chain_cases as base

    case = draw(base(max_n=45))
    for k in ("lifespan", "interlude", "tf", "fill", "ha", "tzoff", "late_down"):
        case.pop(k, None)
    case["forms"] = [draw(st.sampled_from(("dict", "settings", "object", "dict"))), draw(st.sampled_from(("object", "object", "dict", "settings")))]
    case["kind"] = "chain-forms"
    return case


def _run_chain_forms(case) -> Result:
    from hexital import Hexital

    from hxv.props import twin

    up, down = case["chain"]
    rows = case["stream"]
    labels = ["chain_forms", "forms:" + "+".join(case["forms"])]
    try:
        cs = mk_candles(rows)
        build_indicator(up, candles=cs).calculate()
        ref = build_indicator(down, candles=cs)
        ref.calculate()
        want = ref.as_list()
    except Exception:
        return Result([], False, labels + ["standalone_raises"])  # totality is C09
    pre, chunks = twin.schedule(case)
    try:
        given = [_as_form({"cfg": c, "tf": None, "form": f}) for c, f in zip((up, down), case["forms"])]
        hx = Hexital("c08", mk_candles(pre), given)
        hx.calculate()
        for ch in chunks:
            hx.append(mk_candles(ch))
        got = hx.indicator("DOWN").as_list()
    except Exception as exc:
        v = raises(exc, "hexital")
        v.detail = f"chain {[gc.subject_of(c) for c in (up, down)]} given as {case['forms']}: " + v.detail
        return Result([v], True, labels)
    if not same(got, want):
        k = next((i for i, (a, b) in enumerate(zip(got, want)) if not same(a, b)), 0)
        return Result([Violation("member-readings-differ-from-standalone", "chain:" + "+".join(case["forms"]), f"chain {[gc.subject_of(c) for c in (up, down)]} given as {case['forms']}: dependant candle {k}: {got[k] if k < len(got) else None!r} vs run in the given order standalone {want[k] if k < len(want) else None!r}", "hexital")], True, labels)
    return Result([], len(rows) >= 8, labels)


def run_case(case) -> Result:
    if case.get("kind") == "chain-forms":
        return _run_chain_forms(case)
    from hexital import Hexital

    rows = case["stream"]
    pre = min(case["preload"], len(rows))
    rest = rows[pre:]
    chunks = [rest[a:b] for a, b in split_chunks(len(rest), case["chunks"])]
    labels = ["form:" + m["form"] for m in case["members"]]
    if case["ha"]:
        labels.append("ha")
    eff_tfs = {_tf_norm(m["tf"]) or case["tf"] for m in case["members"]}
    if len(eff_tfs) >= 2:
        labels.append("mixed_timeframes")
    hx_kw = {}
    if case["tf"]:
        hx_kw["timeframe"] = case["tf"]
    if case["fill"]:
        hx_kw["timeframe_fill"] = True
    if case["lifespan"] is not None:
        hx_kw["candles_lifespan"] = timedelta(seconds=case["lifespan"])
    if case["ha"]:
        hx_kw["candlestick_type"] = "HA"
    labels = sorted(set(labels))

    # standalone twins first: if the indicator itself cannot digest the stream that is C09's business
    twins = []
    try:
        for m in case["members"]:
            kw = {}
            tf = _tf_norm(m["tf"]) or case["tf"]
            if tf:
                kw["timeframe"] = tf
                if case["fill"]:
                    kw["timeframe_fill"] = True
            if case["lifespan"] is not None:
                kw["candles_lifespan"] = timedelta(seconds=case["lifespan"])
            if case["ha"]:
                kw["candlestick_type"] = "HA"
            t = build_indicator(m["cfg"], candles=mk_candles(rows[:pre]), **kw)
            t.calculate()
            for ch in chunks:
                t.append(mk_candles(ch))
            twins.append(t)
    except Exception:
        return Result([], False, labels + ["twin_raises"])
    names = [t.name for t in twins]

    # the Hexital
    try:
        given = [_as_form(m) for m in case["members"]]
    except Exception as exc:
        v = raises(exc, "hexital")
        v.kind = "settings-" + v.kind
        return Result([v], False, labels)
    late = [bool(m.get("late")) for m in case["members"]]
    if case.get("decoy"):
        late = [True] * len(late)  # a Hexital built without an indicator list, every member added afterwards
        labels = sorted(set(labels + ["all_late_next_to_a_decoy"]))
    elif all(late):
        late[0] = False
    try:
        first = [g for g, lt in zip(given, late) if not lt]
        hx = Hexital("c08", mk_candles(rows[:pre]), first if first or not case.get("decoy") else None, **hx_kw)
        for g, lt in zip(given, late):
            if lt:  # registered after construction, through add_indicator
                hx.add_indicator(g)
        if case.get("decoy"):
            # a second strategy for another instrument, built the same way with the same member names, lives next to it
            decoy_rows = [[r[0]] + [x * 2 + 11 for x in r[1:5]] + [r[5]] for r in rows[: max(2, len(rows) // 2)]]
            decoy = Hexital("decoy", mk_candles(decoy_rows), None, **hx_kw)
            for m in case["members"]:
                decoy.add_indicator(_as_form(m))
            decoy.calculate()
    except Exception as exc:
        v = raises(exc, "hexital")
        forms = {m["form"] for m in case["members"]}
        v.kind = ("construct-from-settings-" if "settings" in forms else "construct-") + v.kind
        v.detail = f"members {[(gc.subject_of(m['cfg']), m['form']) for m in case['members']]}: " + v.detail
        return Result([v], False, labels)
    try:
        hx.calculate()
        for ch in chunks:
            hx.append(mk_candles(ch))
    except Exception as exc:
        v = raises(exc, "hexital")
        return Result([v], False, labels)

    viol = []
    members = list(hx.indicators.values())
    hx_names = list(hx.indicators.keys())
    if any(late):
        labels = labels + ["late_registration"]
    # duplicates (same name) collapse into one dict entry: compare the survivors by order of first appearance
    seen, pairs = set(), []
    order = [i for i, lt in enumerate(late) if not lt] + [i for i, lt in enumerate(late) if lt]
    for m, t in ((case["members"][i], twins[i]) for i in order):
        eff_name = build_indicator(m["cfg"], **({"timeframe": _tf_norm(m["tf"])} if m["tf"] else {})).name
        if eff_name in seen:
            continue
        seen.add(eff_name)
        pairs.append((m, t, eff_name))
    if len(pairs) != len(members) or len(pairs) != len(case["members"]):
        return Result([], False, labels + ["duplicate_names"])  # not a set of distinct indicators
    all_read = True
    for (m, t, eff_name), ind in zip(pairs, members):
        subject = "hexital"
        where = f"{gc.subject_of(m['cfg'])} given as {m['form']}, member tf {m['tf']}, hexital tf {case['tf']} fill {case['fill']} ha {case['ha']} lifespan {case['lifespan']}"
        # a member given with a (later duplicate) differing config keeps the LAST given one; only unique names reach here
        got_c, want_c = snap(ind.candles, readings=False), snap(t.candles, readings=False)
        if got_c != want_c and case["fill"] and case["tf"] and m["tf"] and pre > 0:
            # known mechanism (finding D33): at construction the member's timeframe is collapsed from the
            # Hexital's already collapsed AND gap-filled base candles, later appends are collapsed from raw candles
            from hxv.ref import resample as rr

            base = rr.resample(rows[:pre], tf_seconds(case["tf"]), fill=True)
            mtf = tf_seconds(_tf_norm(m["tf"]))
            defect = rr.resample(rr.resample(base, mtf, fill=True) + [list(r) for r in rest], mtf, fill=True)
            if case["ha"]:
                from hxv.ref import heikin

                defect = heikin.heikin_ashi(defect)
            close = len(got_c) == len(defect) and all(
                a[0] == b[0] and a[5] == b[5] and all(abs(x - y) <= 1e-9 * max(1.0, abs(x), abs(y)) for x, y in zip(a[1:5], b[1:5])) for a, b in zip(got_c, defect)
            )
            if close:
                k = next((i for i, (a, b) in enumerate(zip(got_c, want_c)) if a != b), min(len(got_c), len(want_c)))
                viol.append(Violation("member-candles-differ-from-standalone", "nested-timeframe-built-from-gap-filled-base-candles", f"{where}: candle {k}: {got_c[k] if k < len(got_c) else None} vs standalone {want_c[k] if k < len(want_c) else None}", subject))
                break
        if got_c != want_c:
            k = next((i for i, (a, b) in enumerate(zip(got_c, want_c)) if a != b), min(len(got_c), len(want_c)))
            viol.append(Violation("member-candles-differ-from-standalone", _site(m, case), f"{where}: candle {k}: {got_c[k] if k < len(got_c) else None} vs standalone {want_c[k] if k < len(want_c) else None} (len {len(got_c)} vs {len(want_c)})", subject))
            break
        got_r, want_r = _values(ind), _values(t)
        if not same(got_r, want_r):
            k = next((i for i, (a, b) in enumerate(zip(got_r, want_r)) if not same(a, b)), min(len(got_r), len(want_r)))
            viol.append(Violation("member-readings-differ-from-standalone", _site(m, case), f"{where}: candle {k}: {got_r[k] if k < len(got_r) else None!r} vs standalone {want_r[k] if k < len(want_r) else None!r}", subject))
            break
        if not any(r is not None and r != {} for r in want_r):
            all_read = False
        if m["form"] == "settings":
            orig = build_indicator(m["cfg"], **({"timeframe": _tf_arg(m["tf"])} if m["tf"] else {})).settings
            back = ind.settings
            drop = ("timeframe", "timeframe_fill", "candles_lifespan", "candlestick_type")
            if {k: v for k, v in orig.items() if k not in drop} != {k: v for k, v in back.items() if k not in drop}:
                viol.append(Violation("settings-round-trip-differs", "settings:" + ("analysis" if "analysis" in m["cfg"] else "indicator"), f"{where}: settings {orig} rebuilt an indicator whose settings are {back}", subject))
                break
    if not viol and not case["ha"] and not case["tf"] and case["lifespan"] is None:
        base = snap(hx.candles(), readings=False)
        if base != [list(r) for r in rows]:
            k = next((i for i, (a, b) in enumerate(zip(base, rows)) if a != list(b)), min(len(base), len(rows)))
            viol.append(Violation("base-candles-changed", "default-manager", f"candle {k}: {base[k] if k < len(base) else None} vs given {rows[k] if k < len(rows) else None}", "hexital"))
    nontrivial = (len(pairs) >= 2 or len(eff_tfs) >= 2) and all_read and bool(rows)
    return Result(viol, nontrivial, labels)


def _site(m, case):
    parts = ["form:" + m["form"]]
    if m["tf"]:
        parts.append("own-tf")
    if case["tf"]:
        parts.append("hx-tf")
    if case["fill"]:
        parts.append("fill")
    if case["ha"]:
        parts.append("ha")
    if case["lifespan"] is not None:
        parts.append("lifespan")
    return "+".join(parts)


def _settings_enumerated():
    """every shipped class and wrapper once, given as its own .settings"""
    from hxv.props import twin

    rows = twin.fixed_streams(14)[4]
    for s in gc.SUBJECTS:
        for tf in (None, "T5"):
            yield {"members": [{"cfg": twin.small_cfg(s), "tf": tf, "form": "settings"}, {"cfg": {"cls": "HighLowAverage", "kw": {}}, "tf": None, "form": "dict"}], "tf": None, "fill": False, "ha": False, "lifespan": None, "stream": rows, "preload": 7, "chunks": [3, 4]}


def shards(tier):
    n = 500 if tier == "quick" else 15000
    out = [Shard(f"gen-{i}", lambda: cases(), n, subject="hexital", cost=2) for i in range(15)]
    out.append(Shard("enum-settings", cases=_settings_enumerated, subject="hexital", exhaustive=True))
    out += [Shard(f"chain-forms-{i}", lambda: chain_form_cases(), n, subject="hexital", cost=2) for i in range(2)]
    return out

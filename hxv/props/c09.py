"""C09 - calculation is total: no exception, only finite numbers, no gaps after warm-up."""
from __future__ import annotations

import math

from hypothesis import strategies as st

from hxv.gen import configs as gc
from hxv.gen import streams as gs
from hxv.lib import TZOFFS, interlude, Result, Violation, build_indicator, mgr_kwargs, mk_candles, raises, split_chunks, tf_seconds
from hxv.ref import resample as rr
from hxv.runner import Shard

PROP = "C09"
FUZZ = {"shards": ["RSI", "STOCH", "ADX", "TSI"], "procs_per_shard": 2, "runs": 150000, "seconds": 420}
RULE = (
    "case = (any shipped indicator class or analysis wrapper, periods 2..15, input price field or volume, timeframe/fill, "
    "batch or appended in chunks; stream built from 1-4 segments biased to the degenerate regimes: flat from the start, flat "
    "tail after movement (tail up to 3x warm-up), strictly rising/falling, zero-volume windows, gaps that timeframe_fill fills "
    "with flat zero-volume candles, magnitudes 0.2..1e6); oracle = validity predicate: no exception from append/calculate, "
    "every value in indicators/sub_indicators is None/bool/finite number, each top-level output field stays non-None once it "
    "produced a value; non-trivial = a degenerate window (flat / zero-volume / monotone) of >= period candles after warm-up, or "
    ">=1 fill-inserted candle"
)
FLOORS = {"deg_flat": (0.1, None), "deg_zero_volume": (0.1, None), "deg_monotone": (0.1, None), "deg_fill": (0.05, None)}

SEGMENTS = (
    ("flat",),
    ("flat",),
    ("up",),
    ("down",),
    ("walk",),
    ("walk", "flatbody", "gap"),
    ("flat", "flatbody"),
    gs.REGIMES,
)


@st.composite
def cases(draw, subject):
    cfg = draw(gc.config(subject))
    kw = cfg["kw"]
    if subject == "MACD" and draw(st.integers(0, 3)) == 0:
        # the two periods given the wrong way round: the library puts them back in order itself
        kw["fast_period"], kw["slow_period"] = kw["slow_period"], kw["fast_period"]
    if "input_value" in kw and "cls" in cfg and cfg["cls"] not in ("ROC", "Counter") and draw(st.integers(0, 3)) == 0:
        kw["input_value"] = "volume"
    if draw(st.integers(0, 6)) == 0:  # a legal name suffix; dots are documented to be sanitised
        kw["name_suffix"] = draw(st.sampled_from(("a", "v1.5", "x.y", "1.0.2")))
    w = gc.warmup(cfg)
    grid = draw(gs._GRID)
    base = draw(st.sampled_from((20, 100, 10_000, 1_000_000)))
    nseg = draw(st.integers(1, 4))
    rows = []
    for _ in range(nseg):
        regs = draw(st.sampled_from(SEGMENTS))
        length = draw(st.one_of(st.integers(1, w + 2), st.integers(w, 3 * w)))
        length = min(length, 200 - len(rows))
        if length <= 0:
            break
        zero = draw(st.sampled_from((False, False, True)))
        seg = draw(gs.price_rows(length, regimes=regs, start_regime=regs[0], grid=grid, base=base, zero_volume_runs=True))
        if zero:
            for r in seg:
                r[4] = 0
        rows += seg
        base = max(1, int(round(seg[-1][3] / grid[0])))
    n = len(rows)
    tf = draw(st.one_of(st.none(), st.none(), gs.timeframe()))
    fill = bool(tf) and draw(st.sampled_from((True, True, False)))
    if tf:
        tfs = tf_seconds(tf)
        ts = draw(gs.timestamps(n, tf_s=tfs, pattern=draw(st.sampled_from(("regular", "gappy", "gappy", "jitter")))))
        # keep gaps fillable: at most ~40 buckets each (timestamps() already does)
    else:
        ts = [gs.BASE_DAY + 60 * i for i in range(n)]
    if tf and draw(st.integers(0, 5)) == 0:
        # sub-second timestamps (still non-decreasing): the library documents that it drops microseconds
        ts = [t + 0.800001 + 0.001 * i for i, t in enumerate(ts)]
    stream = [[t] + r for t, r in zip(ts, rows)]
    mode = draw(st.sampled_from(("batch", "append", "append")))
    preload = 0 if mode == "batch" else min(n, draw(st.sampled_from((0, 0, 1, n // 2))))
    chunks_ = [] if mode == "batch" else draw(gs.chunking(n - preload))
    lifespan = None
    if not tf and mode == "append" and draw(st.integers(0, 3)) == 0:
        # a rolling window that always holds the look-back of every new candle (warm-up + the largest chunk + margin)
        lifespan = (w + max([preload] + list(chunks_) + [1]) + draw(st.integers(2, 12))) * 60
    return {
        "lifespan": lifespan,
        "cfg": cfg,
        "tf": tf,
        "fill": fill,
        "stream": stream,
        "mode": mode,
        "preload": preload,
        "chunks": chunks_,
        "tzoff": draw(st.sampled_from(TZOFFS)),  # timezone-aware timestamps are well-formed input too
        "interlude": interlude(lambda a, b: draw(st.integers(a, b)), lambda xs: draw(st.sampled_from(xs))) if draw(st.integers(0, 3)) == 0 else None,
    }


@st.composite
def volume_tail_cases(draw, subject):
    """an indicator reading the volume, on a stream whose volume dries up for a long tail: smoothed
    helpers decay to exactly 0.0 at the stored precision"""
    cfg = draw(gc.config(subject))
    kw = cfg["kw"]
    kw["input_value"] = "volume"
    for k in list(kw):
        if "period" in k and isinstance(kw[k], int):
            kw[k] = min(kw[k], draw(st.integers(2, 5)))
    if subject == "MACD" and kw["fast_period"] >= kw["slow_period"]:
        kw["slow_period"] = kw["fast_period"] + 1
    head = draw(st.integers(0, 25))
    tail = draw(st.integers(20, 120))
    rows = draw(gs.price_rows(head + tail, zero_volume_runs=False))
    for i, r in enumerate(rows):
        r[4] = draw(st.sampled_from((1, 2, 5, 100))) if i < head else 0
    stream = [[gs.BASE_DAY + 60 * i] + r for i, r in enumerate(rows)]
    return {"cfg": cfg, "tf": None, "fill": False, "stream": stream, "mode": draw(st.sampled_from(("batch", "append"))), "preload": 0, "chunks": [1] * len(stream)}


def _bad_value(v):
    if v is None or isinstance(v, bool):
        return False
    if isinstance(v, (int, float)):
        return not math.isfinite(v)
    return True


def _fields(reading):
    if isinstance(reading, dict):
        return dict(reading)
    return {"": reading}


@st.composite
def chain_cases(draw):
    """an indicator whose input is another indicator's output (which has a warm-up of its own and may legitimately
    read 0.0), both in one Hexital, source registered first: calculation must be total there too"""
    from hxv.props.c01 import chain_cases as base

    case = draw(base(max_n=60))
    if case["chain"][1].get("cls") == "ROC":
        # a rate of change relative to a value that may be exactly zero has no value: the statement's inputs are
        # positive prices, and a dependant ROC of a zero-valued series is not generated (DESIGN section 4 C09)
        case["chain"][1] = {"cls": "EMA", "kw": {"period": 3, "input_value": "UP", "fullname_override": "DOWN"}}
    case.pop("lifespan", None)
    case.pop("interlude", None)
    case["cfg"] = case["chain"][1]
    case["mode"] = "append"
    return case


def run_case(case) -> Result:
    cfg, rows = case["cfg"], case["stream"]
    subject = gc.subject_of(cfg)
    kw = cfg.get("kw", {})
    p = max([v for k, v in kw.items() if "period" in k and isinstance(v, int)] + [kw.get("length", 2), 2])
    w = gc.warmup(cfg)
    labels = []
    flat = [r[1] == r[2] == r[3] == r[4] for r in rows]
    zero = [r[5] == 0 for r in rows]
    cl = [r[4] for r in rows]
    mono = [i > 0 and cl[i] > cl[i - 1] for i in range(len(rows))]
    mono_d = [i > 0 and cl[i] < cl[i - 1] for i in range(len(rows))]

    def has_run(flags, length, after):
        run = 0
        for i, f in enumerate(flags):
            run = run + 1 if f else 0
            if run >= length and i >= after:
                return True
        return False

    if has_run(flat, p, w):
        labels.append("deg_flat")
    if has_run(zero, p, w):
        labels.append("deg_zero_volume")
    if has_run(mono, 2 * p, w) or has_run(mono_d, 2 * p, w):
        labels.append("deg_monotone")
    inserted = 0
    if case.get("tf") and rows and isinstance(rows[0][0], float):
        labels.append("subsecond_timestamps")
    if case.get("tf") and case.get("fill") and rows:
        tfs = tf_seconds(case["tf"])
        whole = [[int(r[0])] + r[1:] for r in rows]
        inserted = len(rr.resample(whole, tfs, fill=True)) - len(rr.resample(whole, tfs))
        if inserted:
            labels.append("deg_fill")
    nontrivial = bool(labels)

    try:
        if "chain" in case:
            from hexital import Hexital

            labels.append("chained_input")
            pre = min(case.get("preload", 0), len(rows))
            hx = Hexital("c09", mk_candles(rows[:pre], case.get("tzoff")), [build_indicator(c) for c in case["chain"]], **mgr_kwargs(case))
            hx.calculate()
            rest = rows[pre:]
            for a, b in split_chunks(len(rest), case.get("chunks", [])):
                hx.append(mk_candles(rest[a:b], case.get("tzoff")))
            ind = hx.indicator("DOWN")
            nontrivial = len(rows) >= 6
        elif case.get("mode") == "batch":
            ind = build_indicator(cfg, candles=mk_candles(rows, case.get("tzoff")), **mgr_kwargs(case))
            ind.calculate()
        else:
            pre = min(case.get("preload", 0), len(rows))
            ind = build_indicator(cfg, candles=mk_candles(rows[:pre], case.get("tzoff")), **mgr_kwargs(case))
            rest = rows[pre:]
            spans = split_chunks(len(rest), case.get("chunks", []))
            inter = case.get("interlude")
            for j, (a, b) in enumerate(spans):
                if inter and j == inter["after"] % len(spans):
                    from hxv.lib import apply_interlude

                    apply_interlude(ind, inter)  # recalculate / purge+calculate / recompute an index: must not raise either
                ind.append(mk_candles(rest[a:b], case.get("tzoff")))
            ind.calculate()
    except Exception as exc:
        return Result([raises(exc, subject)], nontrivial, labels)

    viol = []
    started = {}
    for i, c in enumerate(ind.candles):
        for where, d in (("indicators", c.indicators), ("sub_indicators", c.sub_indicators)):
            for key, val in d.items():
                for f, x in _fields(val).items():
                    if _bad_value(x):
                        viol.append(Violation("non-finite-or-foreign-value", (key + ("." + f if f else "")).replace(ind.name, "<name>"), f"candle {i}: {where}[{key}] = {val!r}", subject))
        if viol:
            break
        top = _fields(c.indicators.get(ind.name))
        if subject == "Supertrend":
            top = {"trend": top.get("trend"), "direction": top.get("direction"), "long/short": top.get("long") if top.get("long") is not None else top.get("short")}
        for f, x in top.items():
            if x is not None:
                started.setdefault(f, i)
            elif f in started:
                viol.append(Violation("gap-after-first-value", f or "reading", f"field {f or 'reading'} has a value from candle {started[f]} but none at candle {i} of {len(ind.candles)}", subject))
        if viol:
            break
    return Result(viol[:1], nontrivial, labels, {"fill_inserted": inserted})


def shards(tier):
    n = 300 if tier == "quick" else 8000
    out = []
    for s in gc.SUBJECTS:
        cost = 3 if s in ("ADX", "TSI", "STOCH", "MACD", "HMA", "Supertrend") else 1
        out.append(Shard(s, (lambda s=s: cases(s)), n if not s.startswith("fn:") else n // 2, subject=s, cost=cost))
    for s in ("MACD", "HMA", "KC", "TSI", "RSI", "STOCH", "BBANDS", "EMA", "SMA", "RMA", "WMA", "StandardDeviation", "StandardDeviationThreshold"):
        out.append(Shard("voltail:" + s, (lambda s=s: volume_tail_cases(s)), n // 3, subject=s, cost=2))
    out += [Shard(f"chain-{i}", lambda: chain_cases(), n, subject="chain", cost=2) for i in range(3)]
    return out

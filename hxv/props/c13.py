"""C13 - indicators sharing candles do not interfere with one another."""
from __future__ import annotations

from hypothesis import strategies as st

from hxv.gen import configs as gc
from hxv.gen import streams as gs
from hxv.lib import Result, Violation, build_indicator, mk_candles, raises, same
from hxv.props import twin
from hxv.runner import Shard

PROP = "C13"
RULE = (
    "case = 2-3 indicator configurations with distinct top-level names on the same candles (periods 2..5 and templates that make "
    "name relationships frequent: substring names such as TR/ATR_3, WMA_3/VWMA_3, SMA_3/SMA_30, and composites whose helper is "
    "named like another member's reading such as BBANDS_3 with SMA_3(open) or ATR with TR), a registration order, and a program "
    "of operations aimed at one member a: purge(a), recalculate(a), remove_indicator(a), calculate(), append(chunk); oracle = solo "
    "twin: for every other member b, Hexital.indicator(b).as_list() equals that of a Hexital holding only b over the same candles "
    "- after construction and immediately after every operation; all ordered pairs of the registry at fixed parameters are "
    "enumerated for presence + purge + recalculate; non-trivial = the pair has a name relationship or the program has >=2 operations"
)
FLOORS = {"name_relationship": (0.05, None)}

TEMPLATES = (
    ({"cls": "TR", "kw": {}}, {"cls": "ATR", "kw": {"period": 3}}),
    ({"cls": "WMA", "kw": {"period": 3}}, {"cls": "VWMA", "kw": {"period": 3}}),
    ({"cls": "SMA", "kw": {"period": 3}}, {"cls": "SMA", "kw": {"period": 30}}),
    ({"cls": "EMA", "kw": {"period": 2}}, {"cls": "EMA", "kw": {"period": 20}}),
    ({"cls": "SMA", "kw": {"period": 3, "input_value": "open"}}, {"cls": "BBANDS", "kw": {"period": 3}}),
    ({"cls": "StandardDeviation", "kw": {"period": 4, "input_value": "high"}}, {"cls": "BBANDS", "kw": {"period": 4}}),
    ({"cls": "TR", "kw": {}}, {"cls": "KC", "kw": {"period": 3}}),
    ({"cls": "TR", "kw": {}}, {"cls": "Supertrend", "kw": {"period": 3}}),
    ({"cls": "TR", "kw": {}}, {"cls": "ADX", "kw": {"period": 3}}),
    ({"cls": "ATR", "kw": {"period": 3}}, {"cls": "ADX", "kw": {"period": 3}}),
    ({"cls": "ATR", "kw": {"period": 3}}, {"cls": "KC", "kw": {"period": 3}}),
    ({"cls": "RSI", "kw": {"period": 2}}, {"cls": "RSI", "kw": {"period": 20}}),
    ({"cls": "ROC", "kw": {"period": 2}}, {"cls": "HighLowAverage", "kw": {}}),
    ({"cls": "HighestLowest", "kw": {"period": 3}}, {"cls": "HighLowAverage", "kw": {}}),
    ({"cls": "StandardDeviation", "kw": {"period": 3}}, {"cls": "StandardDeviationThreshold", "kw": {"period": 3}}),
    ({"cls": "EMA", "kw": {"period": 3}}, {"cls": "MACD", "kw": {"fast_period": 2, "slow_period": 3, "signal_period": 2}}),
    ({"cls": "WMA", "kw": {"period": 4}}, {"cls": "HMA", "kw": {"period": 4}}),
    ({"analysis": "rising", "kw": {"indicator": "close", "length": 1}}, {"analysis": "rising", "kw": {"indicator": "close", "length": 12}}),
    ({"cls": "EMA", "kw": {"period": 5}}, {"cls": "EMA", "kw": {"period": 5, "input_value": "high", "name_suffix": "high"}}),
    ({"cls": "TR", "kw": {}}, {"cls": "TR", "kw": {"name_suffix": "b"}}),
    ({"cls": "RSI", "kw": {"period": 3}}, {"cls": "RSI", "kw": {"period": 3, "input_value": "open", "name_suffix": "open"}}),
    ({"cls": "MACD", "kw": {"fast_period": 2, "slow_period": 3, "signal_period": 2}}, {"cls": "MACD", "kw": {"fast_period": 2, "slow_period": 3, "signal_period": 2, "input_value": "low", "name_suffix": "EMA"}}),
    ({"cls": "ATR", "kw": {"period": 3}}, {"cls": "SMA", "kw": {"period": 3, "fullname_override": "ATR_3_x"}}),
    ({"cls": "KC", "kw": {"period": 3, "multiplier": 2.0}}, {"cls": "KC", "kw": {"period": 3, "multiplier": 3.0, "input_value": "high"}}),
    ({"cls": "Supertrend", "kw": {"period": 3, "multiplier": 2.0}}, {"cls": "Supertrend", "kw": {"period": 3, "multiplier": 3.0, "name_suffix": "wide"}}),
    ({"cls": "StandardDeviationThreshold", "kw": {"period": 3, "multiplier": 1.0}}, {"cls": "StandardDeviationThreshold", "kw": {"period": 3, "multiplier": 2.0, "input_value": "high", "name_suffix": "h"}}),
    # a plain indicator of the class and period a composite uses for a helper, on ANOTHER input (a helper left with its
    # default name would be mistaken for it, or the other way round)
    ({"cls": "EMA", "kw": {"period": 3, "input_value": "high"}}, {"cls": "KC", "kw": {"period": 3}}),
    ({"cls": "EMA", "kw": {"period": 2, "input_value": "high"}}, {"cls": "MACD", "kw": {"fast_period": 2, "slow_period": 3, "signal_period": 2}}),
    ({"cls": "EMA", "kw": {"period": 3, "input_value": "low"}}, {"cls": "MACD", "kw": {"fast_period": 2, "slow_period": 3, "signal_period": 3}}),
    ({"cls": "EMA", "kw": {"period": 4, "input_value": "high"}}, {"cls": "TSI", "kw": {"period": 4}}),
    ({"cls": "RMA", "kw": {"period": 3, "input_value": "high"}}, {"cls": "ADX", "kw": {"period": 3}}),
    ({"cls": "SMA", "kw": {"period": 3, "input_value": "high"}}, {"cls": "STOCH", "kw": {"period": 5}}),
    ({"cls": "WMA", "kw": {"period": 4, "input_value": "high"}}, {"cls": "HMA", "kw": {"period": 4}}),
    ({"cls": "SMA", "kw": {"period": 4, "input_value": "low"}}, {"cls": "BBANDS", "kw": {"period": 4}}),
    ({"cls": "ATR", "kw": {"period": 3}}, {"cls": "Supertrend", "kw": {"period": 3}}),
    ({"cls": "Supertrend", "kw": {"period": 3}}, {"cls": "Supertrend", "kw": {"period": 5}}),
    ({"cls": "TR", "kw": {"round_value": 1}}, {"cls": "ATR", "kw": {"period": 3}}),
    ({"cls": "TR", "kw": {"round_value": 1}}, {"cls": "Supertrend", "kw": {"period": 3}}),
)
OPS = ("purge", "recalculate", "remove", "calculate", "append", "purge", "recalculate")


@st.composite
def cases(draw, max_n=45):
    if draw(st.integers(0, 2)) > 0:
        pair = list(draw(st.sampled_from(TEMPLATES)))
        if draw(st.booleans()):
            pair.reverse()
        members = [dict(cls_kw) for cls_kw in pair]
        if draw(st.integers(0, 2)) == 0:
            members.append(draw(gc.config()))
    else:
        members = [draw(gc.config()) for _ in range(draw(st.integers(2, 3)))]
        for m in members:
            for k in list(m["kw"]):
                if "period" in k and isinstance(m["kw"][k], int) and draw(st.booleans()):
                    m["kw"][k] = draw(st.integers(2, 5))
            if m.get("cls") == "MACD" and m["kw"]["fast_period"] >= m["kw"]["slow_period"]:
                m["kw"]["slow_period"] = m["kw"]["fast_period"] + 1
    n = draw(st.integers(4, max_n))
    tf = draw(st.sampled_from((None, None, None, "T5")))
    rows = draw(gs.price_rows(n))
    # members may sit on their own (shared or different) timeframe, ask for gap filling themselves,
    # and be registered later through add_indicator
    own = draw(st.sampled_from((None, None, "T5", "T10") if not tf else (None, None, "T10")))
    for m in members:
        if own and draw(st.integers(0, 2)) > 0:
            m["kw"]["timeframe"] = own if draw(st.integers(0, 3)) else draw(st.sampled_from(("T10", "T15")))
            spell = draw(st.integers(0, 5))
            if spell == 0:
                m["kw"]["timeframe"] = m["kw"]["timeframe"].lower()  # the same timeframe in lower case
            elif spell == 1:
                m["kw"]["timeframe"] = "enum:" + m["kw"]["timeframe"]  # ... or as the TimeFrame enum member
            if draw(st.integers(0, 2)) == 0:
                m["kw"]["timeframe_fill"] = True
    step = draw(st.sampled_from((60, 150, 300))) if (tf or own) else 60
    gappy = bool(own) and draw(st.booleans())
    t, stream = gs.BASE_DAY, []
    for r in rows:
        stream.append([t] + r)
        t += step if not gappy else draw(st.sampled_from((step, step, step, step, 700, 1500)))
    late = [i for i in range(len(members)) if draw(st.integers(0, 3)) == 0]
    if len(late) == len(members):
        late = late[1:]
    pre = draw(st.one_of(st.just(0), st.integers(0, n)))  # a strategy often starts with no candles at all
    ops = []
    pos = pre
    for _ in range(draw(st.integers(1, 6))):
        op = draw(st.sampled_from(OPS))
        if op == "append":
            if pos >= n:
                continue
            k = min(n - pos, draw(st.integers(1, 4)))
            ops.append({"op": "append", "rows": stream[pos : pos + k]})
            pos += k
        else:
            ops.append({"op": op})
    return {"members": members, "late": late, "target": draw(st.integers(0, len(members) - 1)), "tf": tf, "preload": stream[:pre], "ops": ops}


def _mk_hex(cfgs, rows, tf, late=()):
    from hexital import Hexital

    inds = [build_indicator(c) for c in cfgs]
    first = [ind for i, ind in enumerate(inds) if i not in late]
    hx = Hexital("c13", mk_candles(rows), first, **({"timeframe": tf} if tf else {}))
    hx.calculate()
    for i, ind in enumerate(inds):
        if i in late:
            hx.add_indicator(ind)
    hx.calculate()
    return hx, [i.name for i in inds]


def _solo(cfg, rows, tf):
    hx, names = _mk_hex([cfg], rows, tf)
    ind = hx.indicator(names[0])
    keys = set()
    for c in ind.candles:
        keys |= set(c.indicators) | set(c.sub_indicators)
    return ind.as_list(), keys


def run_case(case) -> Result:
    cfgs, tf = case["members"], case.get("tf")
    rows = list(case["preload"])
    labels, viol = [], []
    try:
        names = [build_indicator(c).name for c in cfgs]
    except Exception:
        return Result([], False, ["setup_raises"])
    if len(set(names)) != len(names):
        return Result([], False, ["duplicate_names"])
    a = case["target"] % len(cfgs)
    try:
        solos = [_solo(c, rows, tf) for c in cfgs]
    except Exception:
        return Result([], False, ["solo_raises"])  # totality is C09
    rel = "unrelated"
    for j in range(len(cfgs)):
        if j == a:
            continue
        if names[a] in names[j] or names[j] in names[a]:
            rel = "substring-name"
        elif (solos[a][1] & solos[j][1]) and rel == "unrelated":
            rel = "shared-key"
    if rel != "unrelated":
        labels += ["name_relationship", "rel:" + rel]

    target_full = [True]  # the target's own readings are complete (not just purged): it is an "other" of the others too

    def check(hx, alive, when):
        for j, cfg in enumerate(cfgs):
            if (j == a and not target_full[0]) or j not in alive or viol:
                continue
            try:
                want, _ = _solo(cfg, rows, tf)
                got = hx.indicator(names[j]).as_list()
            except Exception as exc:
                v = raises(exc, "interference")
                v.detail = f"{when}: " + v.detail
                viol.append(v)
                return
            if not same(got, want):
                k = next((i for i, (x, y) in enumerate(zip(got, want)) if not same(x, y)), min(len(got), len(want)))
                viol.append(
                    Violation(
                        "reading-changed-by-other-indicator",
                        f"{when.split(' ')[0]}:{rel}",
                        f"{when}: {names[j]} (with {names[a]} as the other member) candle {k}: {got[k] if k < len(got) else None!r} vs alone {want[k] if k < len(want) else None!r}",
                        "interference",
                    )
                )

    try:
        hx, _ = _mk_hex(cfgs, rows, tf, set(case.get("late", ())))
    except Exception as exc:
        v = raises(exc, "interference")
        v.detail = f"construct {names}: " + v.detail
        return Result([v], rel != "unrelated", labels)
    alive = set(range(len(cfgs)))
    check(hx, alive, "presence")
    for k, op in enumerate(case["ops"]):
        if viol:
            break
        try:
            if op["op"] == "append":
                hx.append(mk_candles(op["rows"]))
                rows += op["rows"]
                target_full[0] = True
            elif op["op"] == "calculate":
                hx.calculate()
                target_full[0] = True
            else:  # also when the target has been removed already: a name that is no longer registered is nobody's
                if a not in alive:
                    labels.append("op_on_removed_name")
                if op["op"] == "purge":
                    target_full[0] = False
                    hx.purge(names[a])
                elif op["op"] == "recalculate":
                    hx.recalculate(names[a])
                    target_full[0] = True
                elif op["op"] == "remove":
                    hx.remove_indicator(names[a])
                    alive.discard(a)
        except Exception as exc:
            v = raises(exc, "interference")
            v.detail = f"op {k} {op['op']}({names[a]}): " + v.detail
            viol.append(v)
            break
        check(hx, alive, f"{op['op']} (op {k})")
    if case.get("late"):
        labels.append("late_registration")
    if any("timeframe" in c["kw"] for c in cfgs):
        labels.append("member_timeframes")
    return Result(viol, rel != "unrelated" or len(case["ops"]) >= 2, labels)


def _enumerated():
    base = twin.fixed_streams(14)[4]
    subjects = gc.SUBJECTS
    for sa in subjects:
        for sb in subjects:
            if sa == sb:
                continue
            yield {
                "members": [twin.small_cfg(sa), twin.small_cfg(sb)],
                "target": 0,
                "tf": None,
                "preload": base[:10],
                "ops": [{"op": "purge"}, {"op": "calculate"}, {"op": "append", "rows": base[10:12]}, {"op": "recalculate"}, {"op": "remove"}, {"op": "append", "rows": base[12:14]}],
            }


def _enumerated_templates():
    """every name-related template pair, in both registration orders, each member in turn as the target of a few fixed
    maintenance programs that go on appending afterwards (a helper series lost by the other member shows in ITS later
    readings)"""
    base = twin.fixed_streams(14)[4]
    longer = twin.fixed_streams(14)[2]
    programs = (
        [{"op": "purge"}, {"op": "append", "rows": None, "k": (10, 12)}, {"op": "append", "rows": None, "k": (12, 14)}],
        [{"op": "recalculate"}, {"op": "append", "rows": None, "k": (10, 13)}, {"op": "append", "rows": None, "k": (13, 14)}],
        [{"op": "append", "rows": None, "k": (10, 11)}, {"op": "remove"}, {"op": "append", "rows": None, "k": (11, 14)}],
        [{"op": "purge"}, {"op": "calculate"}, {"op": "append", "rows": None, "k": (10, 14)}],
    )
    for pair in TEMPLATES:
        for order in (0, 1):
            members = [dict(cls=m["cls"], kw=dict(m["kw"])) if "cls" in m else dict(analysis=m["analysis"], kw=dict(m["kw"])) for m in (pair if order == 0 else pair[::-1])]
            for target in (0, 1):
                for stream in (base, longer):
                    for prog in programs:
                        ops = [dict(op=o["op"], rows=stream[o["k"][0] : o["k"][1]]) if o["op"] == "append" else {"op": o["op"]} for o in prog]
                        yield {"members": [dict(m) for m in members], "late": [], "target": target, "tf": None, "preload": stream[:10], "ops": ops}


def _enum_slice(k, parts):
    def gen():
        for i, c in enumerate(_enumerated()):
            if i % parts == k:
                yield c

    return gen


def shards(tier):
    n = 600 if tier == "quick" else 20000
    out = [Shard(f"gen-{i}", lambda: cases(), n, subject="interference") for i in range(12)]
    out += [Shard(f"enum-pairs-{k}", cases=_enum_slice(k, 4), subject="interference", exhaustive=True, cost=2) for k in range(4)]
    out.append(Shard("enum-templates", cases=_enumerated_templates, subject="interference", exhaustive=True, cost=2))
    return out

"""C07 - work per appended candle is constant: it does not grow with history length."""
from __future__ import annotations

import sys

from hypothesis import strategies as st

from hxv import SRC
from hxv.gen import configs as gc
from hxv.gen import streams as gs
from hxv.lib import Result, Violation, build_indicator, mk_candles, raises
from hxv.runner import Shard

PROP = "C07"
CASE_TIMEOUT = 120.0
RULE = (
    "case = (indicator class or analysis wrapper with generated parameters [or a Hexital holding 2..5 of them on 1-2 timeframes], "
    "timeframe none/T5, a generated 20/25/50-candle pattern tiled to three history lengths n1<n2<n3 = 100/400/1600 (thorough up "
    "to 6400), shape normal / flat from the start / zero volume, optional volume input); oracle = metamorphic measurement: build, "
    "calculate, append 2 settling candles, then append 3 identical tail candles one at a time while a sys.settrace counter records "
    "executed lines inside hexital/indicators, hexital/analysis, core/indicator.py, utils/candles.py, utils/indexing.py; required "
    "max(lines at n3) <= 1.25*max(lines at n1)+40 (same for n2) - deterministic counts, no timing; non-trivial = n1 >= 2x warm-up "
    "bound"
)
ASSUMPTIONS = [
    "work is measured as executed Python lines in indicator/analysis/utils code (the candle manager's list rebuilding on a collapsing timeframe is outside, as in the property's observation point)",
]
LENGTHS = {"quick": (100, 400, 1600), "thorough": (200, 1600, 6400)}
WATCHED = tuple(SRC + p for p in ("/hexital/indicators/", "/hexital/analysis/", "/hexital/core/indicator.py", "/hexital/utils/candles.py", "/hexital/utils/indexing.py"))


class LineCounter:
    def __init__(self):
        self.n = 0
        self._files = {}

    def _watched(self, fn):
        w = self._files.get(fn)
        if w is None:
            w = self._files[fn] = fn.startswith(WATCHED)
        return w

    def _local(self, frame, event, arg):
        if event == "line":
            self.n += 1
        return self._local

    def _global(self, frame, event, arg):
        if self._watched(frame.f_code.co_filename):
            self.n += 1
            return self._local
        return None

    def measure(self, fn):
        self.n = 0
        old = sys.gettrace()
        sys.settrace(self._global)
        try:
            fn()
        finally:
            sys.settrace(old)
        return self.n


@st.composite
def cases(draw, subject, lengths):
    m = draw(st.sampled_from((20, 25, 50)))
    shape = draw(st.sampled_from(("normal", "normal", "normal", "flat", "zero_volume")))
    if shape == "flat":
        rows = draw(gs.price_rows(m, regimes=("flat",), start_regime="flat"))
    else:
        rows = draw(gs.price_rows(m))
    if shape == "zero_volume":
        for r in rows:
            r[4] = 0
    chunk = draw(st.sampled_from((1, 1, 1, 3, 4)))  # measured appends deliver `chunk` candles each
    tail = draw(gs.price_rows(2 + 3 * chunk, regimes=("walk", "up", "down"), start_regime="walk", grid=(0.25, 2), base=400))
    if draw(st.integers(0, 3)) == 0:
        # the market halts after a moving history: the measured appends are flat repeats of one price (a rolling
        # variance then sits at or just below zero, smoothed ranges decay - the paths taken on a standstill)
        px = tail[0][3]
        tail = [[px, px, px, px, draw(st.sampled_from((0, 0, 3)))] for _ in range(14)]
        shape += "+flat_tail"
    case = {"decoy": draw(st.integers(0, 2)) == 0, "pattern": rows, "tail": tail, "chunk": chunk, "shape": shape, "tf": draw(st.sampled_from((None, None, "T5"))), "lengths": list(lengths)}
    if subject == "hexital":
        k = draw(st.integers(2, 5))
        members = []
        for _ in range(k):
            cfg = _cap(draw(gc.config(draw(st.sampled_from(gc.CLASSES)))))
            members.append({"cfg": cfg, "tf": draw(st.sampled_from((None, None, "T5")))})
        case["members"] = members
    elif subject == "fn:custom":
        case["cfg"] = {"custom": "sparse_signal", "kw": {"factor": draw(st.sampled_from((2, 3, 100)))}}
        return case
    elif subject == "fn:over-sparse":
        # a movement function reading a series that is mostly missing (the sparse signal above)
        case["cfg"] = {"over_sparse": draw(st.sampled_from(("highest", "lowest", "rising", "falling", "mean_rising", "value_range", "highestbar", "cross", "crossover", "crossunder"))), "kw": {"length": draw(st.integers(2, 6)), "factor": draw(st.sampled_from((3, 100)))}}
        return case
    else:
        cfg = _cap(draw(gc.config(subject)))
        if "input_value" in cfg["kw"] and "cls" in cfg and cfg["cls"] not in ("ROC", "Counter") and draw(st.integers(0, 3)) == 0:
            cfg["kw"]["input_value"] = "volume"
        case["cfg"] = cfg
    return case


def _cap(cfg, top=10):
    """periods <= 10 so that the shortest history is past twice the warm-up bound"""
    kw = cfg["kw"]
    for k in list(kw):
        if "period" in k and isinstance(kw[k], int):
            kw[k] = min(kw[k], top)
    if cfg.get("cls") == "MACD" and kw["fast_period"] >= kw["slow_period"]:
        kw["fast_period"] = max(2, kw["slow_period"] - 1)
        kw["slow_period"] = kw["fast_period"] + 1
    return cfg


STEP = 150  # seconds: two raw candles per T5 bucket


def _ratio(case):
    """raw candles per collapsed candle of the slowest timeframe in the case"""
    tfs = [case.get("tf")] + [m["tf"] for m in case.get("members", [])]
    return 2 if any(tfs) else 1


def _history(case, n):
    pat = case["pattern"]
    m = len(pat)
    return [[gs.BASE_DAY + STEP * j] + pat[j % m] for j in range(n * _ratio(case))]


def _tail(case, n):
    n = n * _ratio(case)
    return [[gs.BASE_DAY + STEP * (n + k)] + r for k, r in enumerate(case["tail"])]


def sparse_signal(candles, index, factor=3):
    """a user-style analysis function: a signal on unusually wide candles, None ('no signal') otherwise"""
    c = candles[index]
    if index < 1:
        return None
    p = candles[index - 1]
    return True if (c.high - c.low) > factor * max(p.high - p.low, 1e-9) else None


def _build(case, n):
    from hexital import Hexital
    from hexital.indicators import Amorph

    hist = mk_candles(_history(case, n))
    if "members" in case:
        inds, names = [], set()
        for mem in case["members"]:
            ind = build_indicator(mem["cfg"], **({"timeframe": mem["tf"]} if mem["tf"] else {}))
            if ind.name in names:
                continue
            names.add(ind.name)
            inds.append(ind)
        obj = Hexital("c07", hist, inds, **({"timeframe": case["tf"]} if case.get("tf") else {}))
    elif "over_sparse" in case["cfg"]:
        from hexital.analysis import MOVEMENT_MAP

        kw = case["cfg"]["kw"]
        sparse = Amorph(analysis=sparse_signal, factor=kw["factor"])
        if case["cfg"]["over_sparse"].startswith("cross"):  # one side of the comparison is mostly missing
            over = Amorph(analysis=MOVEMENT_MAP[case["cfg"]["over_sparse"]], indicator_one="sparse_signal", indicator_two="close", length=kw["length"])
        else:
            over = Amorph(analysis=MOVEMENT_MAP[case["cfg"]["over_sparse"]], indicator="sparse_signal", length=kw["length"])
        obj = Hexital("c07", hist, [sparse, over], **({"timeframe": case["tf"]} if case.get("tf") else {}))
    elif "custom" in case["cfg"]:
        obj = Amorph(analysis=sparse_signal, candles=hist, **case["cfg"]["kw"], **({"timeframe": case["tf"]} if case.get("tf") else {}))
    else:
        obj = build_indicator(case["cfg"], candles=hist, **({"timeframe": case["tf"]} if case.get("tf") else {}))
    obj.calculate()
    return obj


def run_case(case) -> Result:
    subject = "hexital" if "members" in case else "fn:custom" if "custom" in case["cfg"] else "fn:over-sparse" if "over_sparse" in case["cfg"] else gc.subject_of(case["cfg"])
    labels = ["shape:" + case["shape"]] + (["with_decoy"] if case.get("decoy") else []) + (["has_tf"] if case.get("tf") else []) + (["chunked_appends"] if case.get("chunk", 1) > 1 else [])
    counter = LineCounter()
    work = {}
    try:
        for n in case["lengths"]:
            obj = _build(case, n)
            tail = _tail(case, n)
            # a second live object of the same configuration with a short history of its own, fed in between: state
            # kept per class or per name instead of per object would make the long one pay for the difference
            decoy = _build(case, 30) if case.get("decoy") else None
            dtail = _tail(case, 30) if decoy is not None else []
            for row in tail[:2]:
                obj.append(mk_candles([row]))
            per = []
            k = case.get("chunk", 1)
            rest = tail[2:]
            for a in range(0, len(rest), k):
                if decoy is not None and a // k < len(dtail):
                    decoy.append(mk_candles([dtail[a // k]]))
                cs = mk_candles(rest[a : a + k])
                per.append(counter.measure(lambda: obj.append(cs)))
            work[n] = max(per)
            del obj
    except Exception as exc:
        v = raises(exc, subject)
        if v.kind == "hangs-or-runs-away":
            return Result([v], False, labels)
        return Result([], False, labels + ["raises"])  # totality is C09
    n1, n2, n3 = case["lengths"]
    viol = []
    for n in (n2, n3):
        if work[n] > 1.25 * work[n1] + 40:
            viol.append(Violation("work-grows-with-history", "lines-per-append", f"executed lines per append: {work} (history lengths {n1}/{n2}/{n3}); shape {case['shape']}, tf {case.get('tf')}", subject))
            break
    w = max([gc.warmup(m["cfg"]) for m in case["members"]]) if "members" in case else 2 if "custom" in case["cfg"] else 8 if "over_sparse" in case["cfg"] else gc.warmup(case["cfg"])
    return Result(viol, n1 >= 2 * w, labels, {"max_lines_per_append": work[n3], "measured_appends": 9})


def shards(tier):
    k = 20 if tier == "quick" else 200
    lengths = LENGTHS[tier]
    out = []
    for s in gc.SUBJECTS:
        cost = 4 if s in ("ADX", "TSI", "STOCH", "MACD", "HMA", "Supertrend", "KC", "BBANDS") else 1
        out.append(Shard(s, (lambda s=s: cases(s, lengths)), k, subject=s, cost=cost))
    out.append(Shard("fn:custom", lambda: cases("fn:custom", lengths), k, subject="fn:custom"))
    out.append(Shard("fn:over-sparse", lambda: cases("fn:over-sparse", lengths), k * 2, subject="fn:over-sparse"))
    for i in range(4):
        out.append(Shard(f"hexital-{i}", lambda: cases("hexital", lengths), k, subject="hexital", cost=8))
    return out

"""C06 - momentum, oscillator and volume indicators match their definitions."""
from __future__ import annotations

from hypothesis import strategies as st

from hxv.gen import configs as gc
from hxv.gen import streams as gs
from hxv.lib import Result, Violation
from hxv.props import numeric as nm
from hxv.ref import indicators as ri
from hxv.runner import Shard

PROP = "C06"
RULE = (
    "case = (RSI/MACD/ROC/STOCH/TSI/AROON/ADX/OBV/VWAP with generated periods (fast<slow for MACD), input price field and "
    "round_value; regime-machine stream with flat runs, monotone runs, equal closes, equal and zero volumes); oracle = independent "
    "textbook definitions from the raw candles in bounded arithmetic, per output field (value within bound, no reading before "
    "computable, none missing after); singular points (0/0) only require a value to be present; ADX start-up accepts either "
    "textbook convention (first candle's movement undefined or zero) consistently over the stream; OBV compared exactly; "
    "non-trivial = stream longer than warm-up+5"
)
FLOORS = {"equal_closes": (0.3, None), "equal_volumes": (0.3, None), "window_without_loss": (0.15, None)}
CLASSES = ("RSI", "MACD", "ROC", "STOCH", "TSI", "AROON", "ADX", "OBV", "VWAP")


@st.composite
def cases(draw, cls, max_n=150):
    cfg = draw(gc.config(cls))
    if draw(st.integers(0, 9)) == 0:
        cfg["kw"]["name_suffix"] = draw(st.sampled_from(("b", "v1.5")))  # a legal suffix; dots are sanitised
    w = gc.warmup(cfg)
    n = draw(st.one_of(st.integers(1, w + 3), st.integers(w, max_n), st.integers(w, max_n)))
    if draw(st.integers(0, 3)) == 0:
        return _scheduled(draw, cfg, n)
    case = {"cfg": cfg, "stream": draw(gs.streams(n, n, with_ts=False))}
    if cls in nm.RETUNE_OK and draw(st.integers(0, 3)) == 0:
        case["retune_from"] = draw(st.integers(2, 20))  # first built and calculated with this period, then re-tuned
    if "input_value" in cfg["kw"] and draw(st.integers(0, 3)) == 0:
        case["sibling_input"] = draw(st.sampled_from(("high", "low", "open")))
    elif "values" not in case and draw(st.integers(0, 3)) == 0:
        case["enc"] = draw(st.sampled_from(("dict", "list_first", "list_last", "dict_caps")))
    if draw(st.integers(0, 3)) == 0:
        from hxv.lib import interlude

        case["interlude"] = dict(interlude(lambda a, b: draw(st.integers(a, b)), lambda xs: draw(st.sampled_from(xs))), at=draw(st.integers(1, 80)))
    return case


def _scheduled(draw, cfg, n):
    """the same definition must hold on the collapsed candles of a timeframe fed by any append schedule"""
    from hxv.lib import tf_seconds

    tf = draw(st.sampled_from(("T5", "T5", "T1", "H1")))
    n = min(n * 2, 240)
    rows = draw(gs.streams(n, n, tf_s=tf_seconds(tf)))
    return {"cfg": cfg, "stream": rows, "tf": tf, "fill": draw(st.booleans()), "preload": 0, "chunks": draw(gs.chunking(n))}


def run_case(case) -> Result:
    cfg, rows = case["cfg"], case["stream"]
    cls, kw = cfg["cls"], cfg.get("kw", {})
    r = kw.get("round_value", 4)
    labels, stats, viol = [], {}, []
    if not rows:
        return Result([], False, ["empty"])
    closes, vols = nm.column(rows, "close"), nm.column(rows, "volume")
    if any(a == b for a, b in zip(closes, closes[1:])):
        labels.append("equal_closes")
    if any(a == b for a, b in zip(vols, vols[1:])):
        labels.append("equal_volumes")
    p = kw.get("period", 14)
    if any(all(b >= a for a, b in zip(closes[i : i + p], closes[i + 1 : i + p + 1])) for i in range(0, max(1, len(closes) - p))):
        labels.append("window_without_loss")
    if case.get("tf"):
        from hxv.lib import raises, snap
        from hxv.props import twin

        labels.append("scheduled_timeframe")
        try:
            ind, _ = twin.run_incremental(case)
            v = None
            rows = [r[:6] for r in snap(ind.candles, readings=False)]  # the library's own collapsed candles (C03 judges those)
        except Exception as exc:
            ind, v = None, raises(exc)
    else:
        ind, v = nm.run_batch(cfg, rows, inter=case.get("interlude"), sibling_input=case.get("sibling_input"), enc=None if case.get("interlude") else case.get("enc"))
        if case.get("interlude"):
            labels.append("maintenance_interlude")
    if v is not None:
        v.subject = cls
        return Result([v], False, labels)
    closes, vols = nm.column(rows, "close"), nm.column(rows, "volume")
    col = nm.lift_rows(rows)
    h, l, c, vol = col["high"], col["low"], col["close"], col["volume"]
    x = col[kw.get("input_value", "close")]

    def J(field, impl, ref):
        if not viol:
            vv = nm.judge_series(field, impl, ref, stats)
            if vv:
                viol.append(vv)

    def Jdict(ref):
        for f, s in ref.items():
            J(f, nm.series(ind, f), s)

    if cls == "RSI":
        J("RSI", nm.series(ind), ri.rsi(x, p, r))
    elif cls == "MACD":
        Jdict(ri.macd(x, kw["fast_period"], kw["slow_period"], kw["signal_period"], r))
    elif cls == "ROC":
        J("ROC", nm.series(ind), ri.roc(x, p, r))
    elif cls == "STOCH":
        Jdict(ri.stoch(h, l, x, p, kw.get("slow_period", 3), kw.get("smoothing_k", 3), r))
    elif cls == "TSI":
        sp = kw.get("smooth_period") or (int(p / 2) + (p % 2 > 0))
        J("TSI", nm.series(ind), ri.tsi(x, p, sp, r))
    elif cls == "AROON":
        Jdict(ri.aroon(h, l, p, r))
    elif cls == "ADX":
        verdicts = []
        for first_zero in (False, True):
            ref = ri.adx(h, l, c, p, kw.get("period_signal") or p, r, first_zero=first_zero)
            st_, bad = {}, None
            for f, s in ref.items():
                bad = bad or nm.judge_series(f, nm.series(ind, f), s, st_)
            verdicts.append((bad, st_))
        ok = [st_ for bad, st_ in verdicts if bad is None]
        if ok:
            for k, val in ok[0].items():
                stats[k] = max(stats.get(k, 0), val) if k.startswith("max_") else stats.get(k, 0) + val
        else:
            viol.append(verdicts[0][0])
    elif cls == "OBV":
        if all(round(v_, r) == v_ for v_ in vols):  # whole lots (or lots on the rounding grid): exact
            vv = nm.judge_exact("OBV", nm.series(ind), ri.obv(closes, vols))
            if vv:
                viol.append(vv)
            stats["points_compared"] = len(rows)
        else:  # fractional lots finer than round_value: each stored total carries one rounding
            labels.append("obv_fractional_lots_finer_than_round_value")
            J("OBV", nm.series(ind), ri.obv_stored(closes, vols, r))
    elif cls == "VWAP":
        J("VWAP", nm.series(ind), ri.vwap(h, l, c, vol, r))
    for vv in viol:
        vv.subject = cls
    if not viol and case.get("retune_from") and not case.get("tf") and cls in nm.RETUNE_OK and "period" in kw:
        labels.append("retuned")
        vv = nm.retune_violation(cfg, rows, None, case["retune_from"], ind)
        if vv:
            vv.subject = cls
            viol.append(vv)
    return Result(viol, len(rows) >= gc.warmup(cfg) + 5, labels, stats)


def shards(tier):
    n = 700 if tier == "quick" else 18000
    out = []
    for c in CLASSES:
        cost = 4 if c in ("ADX", "TSI", "STOCH", "MACD") else 1
        out.append(Shard(c, (lambda c=c: cases(c)), n, subject=c, cost=cost))
        if cost > 1:
            out.append(Shard(c + "-b", (lambda c=c: cases(c)), n, subject=c, cost=cost))
    return out

"""C01 - incremental appends give exactly the batch result (schedule independence)."""
from __future__ import annotations

from hypothesis import strategies as st

from hxv.gen import configs as gc
from hxv.lib import Result, Violation, diff_key, first_diff, raises, snap
from hxv.props import twin
from hxv.runner import Shard

PROP = "C01"
RULE = (
    "case = (indicator class or analysis wrapper with generated parameters, timeframe none/S/T/H/D x n, fill, "
    "regime-machine stream, preload count, preload calculated or not, append chunk sizes); oracle = batch twin "
    "(same class over the whole stream, calculate() once), exact equality of every candle's timestamp, OHLCV, "
    "indicators and sub_indicators dicts; non-trivial = >=2 append calls and >=1 non-None top-level reading and, "
    "on a collapsing timeframe, an append boundary that splits a bucket"
)
FLOORS = {"boundary_inside_bucket": (0.25, "has_tf"), "starts_empty": (0.2, None)}
FUZZ = {"shards": ["ADX", "Supertrend", "fn:crossover", "STOCH"], "procs_per_shard": 2, "runs": 60000, "seconds": 300}


@st.composite
def cases(draw, subject, max_n):
    case = draw(twin.twin_cases(subject, max_n=max_n))
    if draw(st.integers(0, 4)) == 0:
        case["ha"] = True  # schedule independence must also hold on converted candles (with timeframe / fill)
    return case


UP = ("SMA", "EMA", "ROC", "OBV", "RSI", "ATR", "HighLowAverage", "WMA")
DOWN = ("SMA", "EMA", "RMA", "WMA", "HMA", "RSI", "ROC", "StandardDeviation", "BBANDS", "MACD", "STOCH", "TSI", "StandardDeviationThreshold")


@st.composite
def chain_cases(draw, max_n=50):
    """a Hexital whose second member takes the first member's reading as its input (a late-starting series)"""
    up = draw(gc.config(draw(st.sampled_from(UP))))
    down = draw(gc.config(draw(st.sampled_from(DOWN))))
    for cfg in (up, down):
        for k in list(cfg["kw"]):
            if "period" in k and isinstance(cfg["kw"][k], int):
                cfg["kw"][k] = min(cfg["kw"][k], draw(st.integers(2, 6)))
        if cfg.get("cls") == "MACD" and cfg["kw"]["fast_period"] >= cfg["kw"]["slow_period"]:
            cfg["kw"]["slow_period"] = cfg["kw"]["fast_period"] + 1
    up["kw"].pop("input_value", None)
    up["kw"]["fullname_override"] = "UP"
    down["kw"]["input_value"] = "UP"
    down["kw"]["fullname_override"] = "DOWN"
    base = draw(twin.twin_cases("HighLowAverage", max_n=max_n))
    base.pop("cfg")
    base["chain"] = [up, down]
    base["late_down"] = draw(st.booleans())  # the dependant is registered later through add_indicator
    return base


def _run_chain(case):
    from hexital import Hexital

    from hxv.lib import build_indicator, mgr_kwargs, mk_candles

    labels = ["chain"] + (["has_tf"] if case.get("tf") else []) + (["chain_late_add"] if case.get("late_down") else [])
    pre, chunks = twin.schedule(case)

    def build(rows):
        return Hexital("c01", mk_candles(rows), [build_indicator(c) for c in case["chain"]], **mgr_kwargs(case))

    b_exc = i_exc = None
    try:
        batch = build(case["stream"])
        batch.calculate()
    except Exception as exc:
        b_exc = exc
    try:
        if case.get("late_down"):
            inc = Hexital("c01", mk_candles(pre), [build_indicator(case["chain"][0])], **mgr_kwargs(case))
            inc.calculate()
            inc.add_indicator(build_indicator(case["chain"][1]))
        else:
            inc = build(pre)
        if case.get("preload_calc"):
            inc.calculate()
        for ch in chunks:
            inc.append(mk_candles(ch))
        inc.calculate()
    except Exception as exc:
        i_exc = exc
    if b_exc is not None and i_exc is not None:
        return Result([], False, labels + ["both_raise"])
    if b_exc is not None or i_exc is not None:
        v = raises(b_exc or i_exc, "chain")
        v.kind = ("batch-only-" if b_exc else "incremental-only-") + v.kind
        return Result([v], False, labels)
    a, b = snap(inc.candles()), snap(batch.candles())
    viol = []
    d = first_diff(a, b)
    if d is not None:
        i, text = d
        key = diff_key(a[i], b[i]) if i < len(a) and i < len(b) else "length"
        viol.append(Violation("incremental-differs-from-batch", key, f"chain {[gc.subject_of(c) for c in case['chain']]} candle {i}: incremental vs batch {text}", "chain"))
    nontrivial = len(chunks) >= 2 and any(r[6].get("DOWN") not in (None, {}) for r in b)
    return Result(viol, nontrivial, labels)


def run_case(case) -> Result:
    if "chain" in case:
        return _run_chain(case)
    subject = gc.subject_of(case["cfg"])
    labels = []
    if case.get("tf"):
        labels.append("has_tf")
        if case.get("fill"):
            labels.append("fill")
    inside = twin.boundary_inside_bucket(case)
    if inside:
        labels.append("boundary_inside_bucket")
    if case.get("preload", 0) == 0:
        labels.append("starts_empty")
    if case.get("ha"):
        labels.append("heikin_ashi")

    b_exc = i_exc = None
    try:
        batch = twin.run_batch(case)
    except Exception as exc:
        b_exc = exc
    try:
        inc, calls = twin.run_incremental(case)
    except Exception as exc:
        i_exc = exc
    if b_exc is not None and i_exc is not None:
        return Result([], False, labels + ["both_raise"])  # totality is C09's business
    if b_exc is not None or i_exc is not None:
        v = raises(b_exc or i_exc, subject)
        v.kind = ("batch-only-" if b_exc else "incremental-only-") + v.kind
        return Result([v], False, labels)

    a, b = snap(inc.candles), snap(batch.candles)
    viol = []
    d = first_diff(a, b)
    if d is not None:
        i, text = d
        key = diff_key(a[i], b[i]) if i < len(a) and i < len(b) else "length"
        key = key.replace(batch.name, "<name>")
        viol.append(Violation("incremental-differs-from-batch", key, f"candle {i}: incremental vs batch {text}", subject))
    nontrivial = calls >= 2 and twin.has_reading(batch) and (inside or not case.get("tf"))
    if calls >= 2:
        labels.append("multi_append")
    return Result(viol, nontrivial, labels)


def _enumerated(subject):
    def gen():
        cfg = twin.small_cfg(subject)
        for si, rows in enumerate(twin.fixed_streams(8)):
            for chunks in twin.compositions(len(rows)):
                for tf in (None, "T5"):
                    yield {"cfg": cfg, "tf": tf, "fill": tf is not None and si % 2 == 0, "stream": rows, "preload": 0, "preload_calc": False, "chunks": chunks}

    return gen


def shards(tier):
    n = 400 if tier == "quick" else 6000
    mx = 60 if tier == "quick" else 200
    out = []
    for s in gc.SUBJECTS:
        cost = 3 if s in ("ADX", "TSI", "STOCH", "MACD", "HMA", "Supertrend") else 1
        out.append(Shard(s, (lambda s=s: cases(s, mx)), n, subject=s, cost=cost))
    out += [Shard(f"chain-{i}", lambda: chain_cases(mx), n, subject="chain", cost=2) for i in range(3)]
    for s in gc.SUBJECTS:
        out.append(Shard("enum:" + s, cases=_enumerated(s), subject=s, exhaustive=True, cost=0.5))
    return out

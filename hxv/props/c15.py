"""C15 - lifespan trimming keeps exactly the window and leaves its readings unchanged."""
from __future__ import annotations

from datetime import datetime, timedelta

from hypothesis import strategies as st

from hxv.gen import configs as gc
from hxv.gen import streams as gs
from hxv.lib import Result, Violation, build_indicator, diff_key, first_diff, mk_candles, raises, snap, split_chunks, tf_seconds
from hxv.props import twin
from hxv.runner import Shard

PROP = "C15"
RULE = (
    "two sub-domains. retention: bare CandleManager or look-back-free indicator (HLA) x any lifespan (0, below one "
    "spacing, below one bucket, beyond the stream) x timeframe x fill x jitter/gappy/burst timestamps x schedule; oracle = "
    "untrimmed twin fed the same schedule: after EVERY append retained (ts,OHLCV) == twin's candles with ts >= newest - "
    "lifespan. readings: every indicator class x regular timestamps x lifespan >= (warm-up bound + largest chunk + margin) "
    "candle spacings; oracle = retained candles and readings equal the untrimmed twin's tail exactly after every append. "
    "non-trivial = >=1 append actually trimmed (and, for readings, a non-None reading was computed after a trim)"
)
FLOORS = {"trimmed": (0.5, None)}


@st.composite
def retention_cases(draw, max_n=40):
    tf = draw(st.one_of(st.none(), gs.timeframe()))
    tfs = tf_seconds(tf) if tf else None
    rows = draw(gs.streams(0, max_n, tf_s=tfs, with_ts=True, zero_volume_runs=False))
    n = len(rows)
    span = (rows[-1][0] - rows[0][0]) if n else 0
    unit = tfs or 60
    lifespan = draw(
        st.one_of(
            st.sampled_from((0, 1, unit - 1, unit, unit + 1, 2 * unit, 5 * unit, 12 * unit + 7)),
            st.integers(0, max(1, span + unit)),
        )
    )
    preload = min(n, draw(st.sampled_from((0, 0, 1, 2, n // 2))))
    return {
        "kind": "retention",
        "mode": draw(st.sampled_from(("manager", "indicator"))),
        "tf": tf,
        "fill": bool(tf) and draw(st.booleans()),
        "lifespan": max(0, lifespan),
        "ha": draw(st.integers(0, 3)) == 0,
        "stream": rows,
        "preload": preload,
        "chunks": draw(gs.chunking(n - preload)),
    }


@st.composite
def retention_tz_cases(draw, max_n=30):
    """timezone-aware timestamps whose UTC offset changes along the stream (a DST switch, a feed that changes its
    zone): "older than the newest timestamp minus the lifespan" is a statement about instants, not wall clocks"""
    rows = draw(gs.streams(2, max_n, tf_s=None, with_ts=True, zero_volume_runs=False))
    n = len(rows)
    span = rows[-1][0] - rows[0][0]
    offs, cur = [], draw(st.sampled_from((0, 60, -300, 330)))
    for _ in range(n):
        if draw(st.integers(0, 5)) == 0:
            cur = max(-720, min(840, cur + draw(st.sampled_from((60, -60, 120, -90)))))  # real zones: UTC-12 .. UTC+14
        offs.append(cur)
    lifespan = draw(st.one_of(st.sampled_from((60, 300, 3600, 7200, 3 * 3600 + 1)), st.integers(0, max(1, span + 60))))
    preload = min(n, draw(st.sampled_from((0, 0, 1, 2, n // 2))))
    return {"kind": "retention_tz", "mode": draw(st.sampled_from(("manager", "indicator"))), "lifespan": lifespan, "stream": rows, "offs": offs, "preload": preload, "chunks": draw(gs.chunking(n - preload))}


def _run_retention_tz(case) -> Result:
    from datetime import timezone

    from hexital.core.candle import Candle
    from hexital.core.candle_manager import CandleManager

    rows, offs, life = case["stream"], case["offs"], case["lifespan"]
    utc0 = datetime(1970, 1, 1, tzinfo=timezone.utc)

    def mk(k):
        ts, o, h, l, c, v = rows[k]
        return Candle(o, h, l, c, v, timestamp=(utc0 + timedelta(seconds=ts)).astimezone(timezone(timedelta(minutes=max(-720, min(840, offs[k % len(offs)]))))))

    pre = max(0, min(case.get("preload", 0), len(rows)))
    bounds = [(pre + a, pre + b) for a, b in split_chunks(len(rows) - pre, case.get("chunks", []))]
    kw = {"candles_lifespan": timedelta(seconds=life)}
    labels = ["retention_tz"]
    try:
        if case.get("mode") == "manager":
            obj = CandleManager([mk(k) for k in range(pre)], **kw)
        else:
            obj = build_indicator({"cls": "HighLowAverage", "kw": {}}, candles=[mk(k) for k in range(pre)], **kw)
            obj.calculate()
    except Exception as exc:
        return Result([raises(exc, "retention")], False, labels)
    trimmed, offset_change_in_window = False, False
    sent = pre
    for t, (a, b) in enumerate([(0, pre)] + bounds):
        if t:
            try:
                obj.append([mk(k) for k in range(a, b)])
            except Exception as exc:
                return Result([raises(exc, "retention")], False, labels)
            sent = b
        if not sent:
            continue
        newest = rows[sent - 1][0]
        want = [k for k in range(sent) if rows[k][0] >= newest - life]
        got = [round((c.timestamp - utc0).total_seconds()) for c in obj.candles]
        if len(want) < sent:
            trimmed = True
            if len({offs[k % len(offs)] for k in range(max(0, want[0] - 1), sent)}) > 1:
                offset_change_in_window = True
        if got != [rows[k][0] for k in want]:
            return Result([Violation("retained-window-wrong", case.get("mode", "indicator") + "+tz", f"after append {t}: retained {len(got)} candles (oldest instant {got[0] if got else None}), expected {len(want)} (oldest {rows[want[0]][0] if want else None}); newest {newest} lifespan {life} offsets(min) {offs[:sent]}", "retention")], True, labels)
    if offset_change_in_window:
        labels.append("offset_change_near_cut")
    return Result([], trimmed and offset_change_in_window, labels)


@st.composite
def reading_cases(draw, subject, max_extra=60):
    cfg = draw(gc.config(subject))
    w = gc.warmup(cfg)
    tf = draw(st.one_of(st.none(), st.none(), st.sampled_from(("T1", "T5", "T10", "H1"))))
    ha = draw(st.integers(0, 4)) == 0
    if ha:
        tf = None
    tfs = tf_seconds(tf) if tf else None
    step = draw(st.sampled_from((tfs // 5, tfs // 2, tfs, 2 * tfs))) if tf else draw(st.sampled_from((1, 60, 300)))
    step = max(1, step)
    n = w + draw(st.integers(5, max_extra))
    start = gs.BASE_DAY + draw(st.integers(0, 20)) * (tfs or step) + draw(st.sampled_from((0, 1, step // 2)))
    prices = draw(gs.price_rows(n))
    rows = [[start + i * step] + r for i, r in enumerate(prices)]
    preload = min(n, draw(st.sampled_from((0, 0, 1, w, n // 2))))
    chunks = draw(gs.chunking(n - preload))
    biggest = max([preload] + list(chunks) + [1])
    spacing = max(step, tfs or 0)
    margin = draw(st.integers(1, 20))
    return {
        "kind": "readings",
        "cfg": cfg,
        "tf": tf,
        "fill": False,
        "lifespan": (w + biggest + margin + 2) * spacing,
        "ha": ha,
        "stream": rows,
        "preload": preload,
        "preload_calc": True,
        "chunks": chunks,
    }


RECURSIVE = ("EMA", "RMA", "ATR", "RSI", "OBV", "VWAP", "Counter", "KC", "MACD", "TSI", "Supertrend", "ADX")


@st.composite
def recursive_cases(draw, subject):
    """a purely recursive indicator is seeded during a fast burst and then fed slowly, one candle per append,
    with a lifespan that keeps the predecessor of every new candle but fewer than `period` candles"""
    cfg = draw(gc.config(subject))
    for k in list(cfg["kw"]):
        if "period" in k and isinstance(cfg["kw"][k], int):
            cfg["kw"][k] = max(cfg["kw"][k], draw(st.integers(4, 12)))
    if subject == "MACD" and cfg["kw"]["fast_period"] >= cfg["kw"]["slow_period"]:
        cfg["kw"]["slow_period"] = cfg["kw"]["fast_period"] + 2
    w = gc.warmup(cfg)
    fast = draw(st.sampled_from((1, 5, 10)))
    burst = w + draw(st.integers(3, 10))
    keep = draw(st.integers(3, 5))  # candles retained in the slow phase (>= predecessor + the new one + 1)
    slow = -(-(burst + 4) * fast // keep) + 1  # so that keep*slow covers the whole burst
    life = keep * slow
    tail = draw(st.integers(5, 25))
    prices = draw(gs.price_rows(burst + tail))
    ts, t = [], gs.BASE_DAY
    for i in range(burst + tail):
        ts.append(t)
        t += fast if i < burst - 1 else slow
    rows = [[a] + r for a, r in zip(ts, prices)]
    return {"kind": "readings", "cfg": cfg, "tf": None, "fill": False, "lifespan": life, "ha": False, "stream": rows, "preload": 0, "preload_calc": True, "chunks": [burst] + [1] * tail, "recursive": True}


# look-back in candles (the new candle included) of the classes that compute from a window. For classes whose update
# reads the value LEAVING the window (SMA, sigma, hence BBANDS) that is period + 1: with exactly `period` candles
# retained no rolling implementation can give readings *identical* to the untrimmed run, so the statement's look-back
# is read as what the update needs there.
WINDOW = {"WMA": 0, "VWMA": 0, "Donchian": 0, "ROC": 1, "AROON": 1, "HighestLowest": 1, "SMA": 1, "StandardDeviation": 1, "BBANDS": 1}


@st.composite
def window_exact_cases(draw, subject):
    """one candle per append at a regular cadence with a lifespan that keeps EXACTLY the look-back window: every
    append trims one candle, and every new reading has just what it needs"""
    cfg = draw(gc.config(subject))
    cfg["kw"]["period"] = draw(st.integers(2, 9))
    cfg["kw"].pop("input_value", None)
    look = cfg["kw"]["period"] + WINDOW[subject]
    step = draw(st.sampled_from((1, 60, 300)))
    n = look + draw(st.integers(4, 40))
    prices = draw(gs.price_rows(n))
    start = gs.BASE_DAY + draw(st.integers(0, 500))
    rows = [[start + i * step] + r for i, r in enumerate(prices)]
    extra = draw(st.sampled_from((0, 0, 0, 1, 2)))  # mostly exact, sometimes one or two candles to spare
    return {"kind": "readings", "cfg": cfg, "tf": None, "fill": False, "lifespan": (look - 1 + extra) * step, "ha": False, "stream": rows, "preload": 0, "preload_calc": True, "chunks": [1] * n, "window_exact": extra == 0}


def _mk(case, lifespan):
    from hexital.core.candle_manager import CandleManager

    pre, chunks = twin.schedule(case)
    kw = {}
    if case.get("tf"):
        kw["timeframe"] = case["tf"]
        kw["timeframe_fill"] = bool(case.get("fill"))
    if lifespan is not None:
        kw["candles_lifespan"] = timedelta(seconds=lifespan)
    if case.get("ha"):
        from hexital.candlesticks.heikinashi import HeikinAshi

        kw["candlestick_type"] = HeikinAshi()
    if case["kind"] == "retention" and case.get("mode") == "manager":
        obj = CandleManager(mk_candles(pre), **kw)
    else:
        cfg = case.get("cfg", {"cls": "HighLowAverage", "kw": {}})
        obj = build_indicator(cfg, candles=mk_candles(pre), **kw)
        obj.calculate()
    return obj, chunks


def run_case(case) -> Result:
    if case.get("kind") == "retention_tz":
        return _run_retention_tz(case)
    subject = gc.subject_of(case["cfg"]) if "cfg" in case else "retention"
    life = case["lifespan"]
    labels = [case["kind"]] + (["ha"] if case.get("ha") else []) + (["recursive_short_window"] if case.get("recursive") else []) + (["window_exact"] if case.get("window_exact") else [])
    try:
        free, _ = _mk(case, None)
    except Exception:
        return Result([], False, labels + ["twin_raises"])  # totality is C09's business
    try:
        real, chunks = _mk(case, life)
    except Exception as exc:
        return Result([raises(exc, subject)], False, labels)
    with_readings = case["kind"] == "readings"
    name = getattr(real, "name", "")
    viol, trimmed, reading_after_trim = [], False, False

    def compare(step_no):
        nonlocal trimmed, reading_after_trim
        got = snap(real.candles, readings=with_readings)
        full = snap(free.candles, readings=with_readings)
        if not full:
            want = []
        else:
            newest = full[-1][0]
            want = [r for r in full if r[0] is None or r[0] >= newest - life]
            # the library trims from the front only: candles before the first expired one cannot survive
        if len(want) < len(full):
            if trimmed and with_readings and any(r[6].get(name) is not None for r in want[-1:]):
                reading_after_trim = True
            trimmed = True
        if case.get("ha") and case.get("tf"):
            # a still-forming bucket is re-converted after every merge and then needs its predecessor:
            # the statement's precondition (needed earlier candles retained) is not guaranteed here,
            # so only identity (timestamp) and volume are judged for Heikin-Ashi on a collapsing timeframe
            got = [[r[0], 0, 0, 0, 0, r[5]] for r in got]
            want = [[r[0], 0, 0, 0, 0, r[5]] for r in want]
        if [r[0] for r in got] == [r[0] for r in want] and [r[:6] for r in got] != [r[:6] for r in want]:
            k = next(i for i, (a, b) in enumerate(zip(got, want)) if a[:6] != b[:6])
            return Violation(
                "retained-candle-values-differ-from-untrimmed-run",
                case.get("mode", "indicator") + ("+ha" if case.get("ha") else ""),
                f"after append {step_no}, retained candle {k}: {got[k][:6]} vs untrimmed {want[k][:6]}",
                subject,
            )
        if [r[:6] for r in got] != [r[:6] for r in want]:
            return Violation(
                "retained-window-wrong",
                case.get("mode", "indicator") + ("+tf" if case.get("tf") else ""),
                f"after append {step_no}: retained {len(got)} (oldest {got[0][0] if got else None}) expected {len(want)} "
                f"(oldest {want[0][0] if want else None}); newest {full[-1][0] if full else None} lifespan {life}",
                subject,
            )
        if with_readings:
            d = first_diff(got, want)
            if d is not None:
                i, text = d
                key = diff_key(got[i], want[i]).replace(name, "<name>")
                return Violation("retained-reading-differs-from-untrimmed-run", key, f"after append {step_no}, retained candle {i}: {text}", subject)
        return None

    v = compare(0)
    if v:
        viol.append(v)
    for t, ch in enumerate(chunks):
        if viol:
            break
        try:
            free.append(mk_candles(ch))
        except Exception:
            return Result([], False, labels + ["twin_raises"])
        try:
            real.append(mk_candles(ch))
        except Exception as exc:
            return Result([raises(exc, subject)], False, labels)
        v = compare(t + 1)
        if v:
            viol.append(v)
    if trimmed:
        labels.append("trimmed")
    nontrivial = trimmed and (reading_after_trim or not with_readings)
    return Result(viol, nontrivial, labels)


def shards(tier):
    n = 1000 if tier == "quick" else 25000
    out = [Shard(f"retention-{i}", lambda: retention_cases(), n, subject="retention") for i in range(6)]
    out += [Shard(f"retention-tz-{i}", lambda: retention_tz_cases(), n // 2, subject="retention") for i in range(2)]
    m = 60 if tier == "quick" else 1500
    for s in gc.CLASSES:
        cost = 3 if s in ("ADX", "TSI", "STOCH", "MACD", "HMA", "Supertrend") else 1
        out.append(Shard("readings:" + s, (lambda s=s: reading_cases(s)), m, subject=s, cost=cost))
    for s in RECURSIVE:
        out.append(Shard("recursive:" + s, (lambda s=s: recursive_cases(s)), m, subject=s, cost=2))
    for s in WINDOW:
        out.append(Shard("window-exact:" + s, (lambda s=s: window_exact_cases(s)), 3 * m, subject=s))
    for s in ("fn:rising", "fn:highest", "fn:crossover", "fn:doji", "fn:hammer", "fn:mean_rising"):
        out.append(Shard("readings:" + s, (lambda s=s: reading_cases(s)), m, subject=s))
    return out

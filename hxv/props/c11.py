"""C11 - Heikin-Ashi conversion follows its recurrence under every append schedule."""
from __future__ import annotations

from hypothesis import strategies as st

from hxv.gen import configs as gc
from hxv.gen import streams as gs
from hxv.lib import Result, Violation, build_indicator, dt_to_ts, mk_candles, raises, snap, tf_seconds
from hxv.props import twin
from hxv.ref import heikin, resample as rr
from hxv.runner import Shard

PROP = "C11"
FUZZ = {"shards": ["any", "EMA"], "procs_per_shard": 2, "runs": 60000, "seconds": 300}
RULE = (
    "case = (indicator config, timeframe none/collapsing, fill, stream, preload 0/1/2/k, append chunks, standalone or "
    "Hexital with one extra timeframe); oracles = (1) reference HA recurrence over the raw (reference-resampled) candles, "
    "OHLC within 1e-9 relative, after the final append; (2) clean_values of every converted candle hold the raw OHLCV; "
    "(3) a counting HeikinAshi subclass: on the base timeframe each candle converted exactly once, on a collapsing one a "
    "bucket is only re-converted by an append that merged a candle into it; (4) readings equal those of the same "
    "indicator over plain candles carrying the converted values; non-trivial = >=3 candles and >=2 append calls"
)
FLOORS = {"starts_empty": (0.3, None), "starts_single": (0.15, None)}
TOL = 1e-9


@st.composite
def cases(draw, subject=None, max_n=40):
    case = draw(twin.twin_cases(subject, max_n=max_n))
    n = len(case["stream"])
    case["preload"] = min(n, draw(st.sampled_from((0, 0, 0, 1, 1, 2, n // 2))))
    case["chunks"] = draw(gs.chunking(n - case["preload"]))
    case["ha"] = True
    if n and draw(st.integers(0, 5)) == 0:
        # a series quoted around zero (a spread): the recurrence is plain arithmetic and must cope with 0.0
        rows = case["stream"]
        pivot = rows[draw(st.integers(0, n - 1))][draw(st.sampled_from((1, 2, 3, 4)))]
        for r in rows:
            for k in (1, 2, 3, 4):
                r[k] = r[k] - pivot
        case["zero_touching"] = True
    if n and draw(st.integers(0, 7)) == 0:
        # bad ticks: a close outside [low, high] (the statement's recurrence is defined for any four numbers)
        for r in case["stream"]:
            k = draw(st.sampled_from((0, 0, 0, 1, 2)))
            if k == 1:
                r[4] = r[2] + abs(r[2] - r[3]) + 1.0  # close above the high
            elif k == 2:
                r[4] = r[3] - abs(r[2] - r[3]) - 1.0  # close below the low
        case["bad_ticks"] = True
    if case["stream"] and case["stream"][0][0] is not None and draw(st.integers(0, 3)) == 0:
        case["hexital_tf2"] = draw(st.sampled_from(("T1", "T5", "H1", "S30")))
    elif case["stream"] and case["stream"][0][0] is not None and not case.get("tf") and draw(st.integers(0, 2)) == 0:
        # base timeframe only: there every candle is converted once, while its predecessor is still retained. (On a
        # collapsing timeframe a re-opened bucket is converted again and may by then have lost its predecessor to
        # the trim - the recurrence cannot be continued there, by construction, so that is not judged.)
        case["lifespan"] = draw(st.sampled_from((120, 300, 433, 600, 3600)))
    return case


def _close(a, b):
    return abs(a - b) <= TOL * max(1.0, abs(a), abs(b))


def _counting_ha():
    from hexital.candlesticks.heikinashi import HeikinAshi

    class CountingHA(HeikinAshi):
        def __init__(self):
            super().__init__()
            self.log = []  # (timestamp, append call number)
            self.call = 0

        def convert_candle(self, candle, candles, index):
            self.log.append((dt_to_ts(candle.timestamp) if candle.timestamp else ("i", index), self.call))
            return super().convert_candle(candle, candles, index)

    return CountingHA()


def _expected(rows, tf, fill):
    raw = rr.resample(rows, tf_seconds(tf), fill=fill) if tf else [list(r) for r in rows]
    return raw, heikin.heikin_ashi(raw)


def _judge_candles(candles, rows, tf, fill, where, subject, lifespan=None):
    raw, want = _expected(rows, tf, fill)
    got = snap(candles, readings=False)
    if lifespan is not None and want and want[-1][0] is not None:
        # only the window is retained, but the recurrence behind it is that of the whole stream
        keep = [i for i, w in enumerate(want) if w[0] >= want[-1][0] - lifespan]
        raw, want = [raw[i] for i in keep], [want[i] for i in keep]
    if len(got) != len(want):
        return [Violation("candle-count", where, f"{len(got)} candles vs {len(want)} expected", subject)]
    for i, (g, w, r, c) in enumerate(zip(got, want, raw, candles)):
        if g[0] != w[0] or not all(_close(g[k], w[k]) for k in (1, 2, 3, 4)) or g[5] != w[5]:
            kind = "not-converted" if g[1:5] == r[1:5] and r[1:5] != w[1:5] else "ha-values-differ"
            return [Violation(kind, where, f"candle {i}/{len(got)}: got {g} want {w} raw {r}", subject)]
        cv = c.clean_values
        if not cv or any(cv.get(f) != r[k] for f, k in (("open", 1), ("high", 2), ("low", 3), ("close", 4), ("volume", 5))):
            return [Violation("clean-values-not-raw", where, f"candle {i}: clean_values {cv} raw {r}", subject)]
        if c.tag != "Heikin-Ashi":
            return [Violation("not-tagged", where, f"candle {i}: tag {c.tag}", subject)]
    return []


def _run_lifespan(case) -> Result:
    """a candle lifespan on top: the retained candles are the tail of the full stream's Heikin-Ashi series"""
    from datetime import timedelta

    from hexital.candlesticks.heikinashi import HeikinAshi
    from hexital.core.candle_manager import CandleManager

    rows, tf, fill = case["stream"], case.get("tf"), bool(case.get("fill"))
    pre, chunks = twin.schedule(case)
    labels = ["with_lifespan"] + (["has_tf"] if tf else [])
    kw = {"candlestick_type": HeikinAshi(), "candles_lifespan": timedelta(seconds=case["lifespan"])}
    if tf:
        kw.update(timeframe=tf, timeframe_fill=fill)
    try:
        m = CandleManager(mk_candles(pre), **kw)
        for ch in chunks:
            m.append(mk_candles(ch))
    except Exception as exc:
        return Result([raises(exc, "HA")], False, labels)
    viol = _judge_candles(m.candles, rows, tf, fill, "manager+lifespan" + ("+tf" if tf else ""), "HA", lifespan=case["lifespan"])
    trimmed = len(m.candles) < len(_expected(rows, tf, fill)[1])
    return Result(viol, trimmed and len(chunks) >= 2, labels + (["trimmed"] if trimmed else []))


def run_case(case) -> Result:
    if case.get("lifespan"):
        return _run_lifespan(case)
    subject = gc.subject_of(case["cfg"])
    rows, tf, fill = case["stream"], case.get("tf"), bool(case.get("fill"))
    pre, chunks = twin.schedule(case)
    labels = []
    if len(pre) == 0:
        labels.append("starts_empty")
    if len(pre) == 1:
        labels.append("starts_single")
    if tf:
        labels.append("has_tf")
    if case.get("zero_touching"):
        labels.append("zero_touching")
    if case.get("bad_ticks"):
        labels.append("bad_ticks")
    viol = []
    ha = _counting_ha()
    kw = {"candlestick_type": ha}
    if tf:
        kw.update(timeframe=tf, timeframe_fill=fill)
    try:
        ind = build_indicator(case["cfg"], candles=mk_candles(pre), **kw)
        ind.calculate()
        merged_into = {}  # call -> set of bucket labels that received a candle in that call
        for j, ch in enumerate(chunks):
            ha.call = j + 1
            if tf:
                merged_into[j + 1] = {rr.label(r[0], tf_seconds(tf)) for r in ch}
            ind.append(mk_candles(ch))
    except Exception as exc:
        v = raises(exc, subject)
        if v.site.startswith(("candle", "heikin", "indicator.py:append", "outside")) or "Tagged" in v.kind:
            return Result([v], False, labels)
        return Result([], False, labels + ["indicator_raises"])  # totality of the indicator itself is C09

    viol += _judge_candles(ind.candles, rows, tf, fill, "standalone" + ("+tf" if tf else "") + ("+fill" if fill else ""), "HA")

    # (3) conversion counts
    if not viol:
        per = {}
        for ts, call in ha.log:
            per.setdefault(ts, []).append(call)
        for c_i, c in enumerate(ind.candles):
            key = dt_to_ts(c.timestamp) if c.timestamp else ("i", c_i)
            calls = per.get(key, [])
            if not tf:
                if c.timestamp is not None and len(calls) != 1 and [r[0] for r in rows].count(key) == 1:
                    viol.append(Violation("converted-more-than-once", "standalone", f"candle {c_i} ts {key}: converted in calls {calls}", "HA"))
                    break
            else:
                extra = [cl for cl in calls[1:] if key not in merged_into.get(cl, ())]
                if len(calls) < 1 or extra or len(calls) != len(set(calls)):
                    viol.append(Violation("closed-bucket-reconverted", "standalone+tf", f"bucket {key}: conversions in calls {calls}, merges only in {sorted(k for k, v in merged_into.items() if key in v)}", "HA"))
                    break

    # (4) readings computed on converted values
    if not viol:
        from hexital import Candle

        plain = [Candle(c.open, c.high, c.low, c.close, c.volume, timestamp=c.timestamp) for c in ind.candles]
        try:
            ref_ind = build_indicator(case["cfg"], candles=plain)
            ref_ind.calculate()
            a = [(c.indicators, c.sub_indicators) for c in ind.candles]
            b = [(c.indicators, c.sub_indicators) for c in ref_ind.candles]
            # names differ by the timeframe suffix only; compare by value order
            va = [[v for _, v in sorted(d.items())] for pair in a for d in pair]
            vb = [[v for _, v in sorted(d.items())] for pair in b for d in pair]
            from hxv.lib import same

            if not same(va, vb):
                k = next(i for i, (x, y) in enumerate(zip(va, vb)) if not same(x, y))
                viol.append(Violation("readings-not-on-converted-values", "standalone", f"candle {k // 2}: {va[k]} vs {vb[k]}", subject))
        except Exception:
            labels.append("plain_twin_raises")

    # Hexital with one extra timeframe
    if case.get("hexital_tf2") and not viol:
        labels.append("hexital_mode")
        viol += _hexital(case, "HA")
    nontrivial = len(rows) >= 3 and len(chunks) >= 2
    return Result(viol, nontrivial, labels)


def _hexital(case, subject):
    from hexital import Hexital

    rows = case["stream"]
    pre, chunks = twin.schedule(case)
    tf2 = case["hexital_tf2"]
    # a second member timeframe created in the same call (each must collapse and convert copies of its own)
    tf3 = {"T1": "T5", "T5": "T10", "H1": "T15", "S30": "T1"}.get(tf2)
    third = [build_indicator({"cls": "HighLowAverage", "kw": {}}, timeframe=tf3)] if tf3 and len(rows) % 2 else []
    try:
        hx = Hexital("c11", mk_candles(pre), [build_indicator({"cls": "HighLowAverage", "kw": {}}), build_indicator({"cls": "HighLowAverage", "kw": {}}, timeframe=tf2)] + third, candlestick_type="HA")
        hx.calculate()
        for ch in chunks:
            hx.append(mk_candles(ch))
    except Exception as exc:
        return [raises(exc, subject)]
    out = _judge_candles(hx.candles(), rows, None, False, "hexital-base", subject)
    if not out:
        out = _judge_candles(hx.candles(tf2), rows, tf2, False, "hexital-extra-timeframe", subject)
    if not out and third:
        out = _judge_candles(hx.candles(tf3), rows, tf3, False, "hexital-second-extra-timeframe", subject)
    return out


def shards(tier):
    n = 800 if tier == "quick" else 8000
    subs = ("HighLowAverage", "EMA", "SMA", "RSI", "ATR", "OBV", "Supertrend", "fn:rising", "TR", "WMA", "KC", "AROON")
    out = [Shard(s, (lambda s=s: cases(s)), n, subject=s) for s in subs]
    out.append(Shard("any", lambda: cases(None), n, subject="any", cost=2))
    out.append(Shard("any-long", lambda: cases(None, max_n=100), n // 4, subject="any", cost=3))
    return out

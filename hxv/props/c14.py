"""C14 - maintenance operations are idempotent and always converge to the batch state."""
from __future__ import annotations

from hypothesis import strategies as st

from hxv.gen import configs as gc
from hxv.gen import streams as gs
from hxv.lib import Result, Violation, build_indicator, first_diff, mk_candles, raises, same, snap
from hxv.runner import Shard

PROP = "C14"
FUZZ = {"shards": ["hexital-0", "indicator-0"], "procs_per_shard": 2, "runs": 60000, "seconds": 300}
RULE = (
    "case = a maintenance program over a Hexital with 1-4 distinct members (or a standalone indicator): operations append(chunk), "
    "calculate([name]), purge([name]), recalculate([name]), calculate_index([name], +i / -k) only on members whose readings are "
    "all present (tracked in the model), add_indicator, remove_indicator; model = the rows sent so far + the registered set + a "
    "per-member 'fully calculated' flag; post-conditions per operation: calculate twice == once; recalculate == identity on a "
    "calculated state; purge(name) removes exactly the keys a solo twin of that member writes and changes nothing else; "
    "calculate_index(+i) and (-k) reproduce the stored reading; after the program (and after every append) calculate() must not "
    "raise and the full per-candle dicts must equal a batch twin (fresh Hexital, same members, same candles); non-trivial = >=3 "
    "operations fired including a purge / recalculate / calculate_index"
)
FLOORS = {"negative_index": (0.05, None), "nested_helpers": (0.4, None)}
NESTED = ("STOCH", "TSI", "HMA", "ADX", "BBANDS", "KC", "Supertrend", "StandardDeviationThreshold", "MACD", "ATR")
OPS = ("append", "append", "calculate", "purge", "recalculate", "calculate_index", "calculate_index", "calculate_index_range", "add", "remove", "calculate_all", "purge_all", "recalculate_all")


@st.composite
def programs(draw, target="hexital", max_n=40):
    pool = [draw(gc.config(s)) for s in draw(st.lists(st.sampled_from(gc.CLASSES + ("fn:rising", "fn:highest", "fn:doji")), min_size=1 if target == "indicator" else 2, max_size=1 if target == "indicator" else 5, unique=True))]
    for m in pool:
        for k in list(m["kw"]):
            if "period" in k and isinstance(m["kw"][k], int):
                m["kw"][k] = min(m["kw"][k], draw(st.integers(2, 6)))
        if m.get("cls") == "MACD" and m["kw"]["fast_period"] >= m["kw"]["slow_period"]:
            m["kw"]["slow_period"] = m["kw"]["fast_period"] + 1
    if target == "hexital" and draw(st.integers(0, 2)) == 0:
        # a sibling that differs only by a name suffix (EMA_3 / EMA_3_high): names related by prefix
        base = pool[draw(st.integers(0, len(pool) - 1))]
        if "cls" in base:
            sib = {"cls": base["cls"], "kw": dict(base["kw"], name_suffix=draw(st.sampled_from(("high", "b", "x2"))))}
            if "input_value" in sib["kw"] or base["cls"] in ("EMA", "SMA", "RSI", "WMA", "RMA"):
                sib["kw"]["input_value"] = "high"
            pool.append(sib)
    n = draw(st.integers(3, max_n))
    tf = draw(st.sampled_from((None, None, None, "T5")))
    own = None
    if target == "hexital" and draw(st.integers(0, 2)) == 0:
        own = draw(st.sampled_from(("T5", "T10") if not tf else ("T10", "T15")))
        for m in pool:
            if draw(st.booleans()):
                m["kw"]["timeframe"] = own
    step = 60 if not (tf or own) else draw(st.sampled_from((60, 150, 300)))
    rows = [[gs.BASE_DAY + i * step] + r for i, r in enumerate(draw(gs.price_rows(n)))]
    pre = draw(st.integers(0, n))
    initial = 1 if target == "indicator" else draw(st.integers(1, len(pool)))
    ops, pos = [], pre
    for _ in range(draw(st.integers(2, 14))):
        op = draw(st.sampled_from(OPS))
        entry = {"op": op, "who": draw(st.integers(0, 9))}
        if op == "append":
            if pos >= n:
                continue
            k = min(n - pos, draw(st.sampled_from((1, 1, 2, 5))))
            entry["rows"] = rows[pos : pos + k]
            pos += k
        elif op == "calculate_index":
            entry["index"] = draw(st.integers(0, 60))
            entry["negative"] = draw(st.booleans())
        elif op == "calculate_index_range":
            entry["index"] = draw(st.integers(0, 60))
            entry["span"] = draw(st.integers(2, 6))
            entry["negative"] = draw(st.booleans())  # the same range addressed by negative indices
        ops.append(entry)
    return {"target": target, "pool": pool, "initial": initial, "tf": tf, "preload": rows[:pre], "ops": ops}


@st.composite
def churn_programs(draw):
    """a member that is alone on its timeframe is removed, candles arrive, a member of that timeframe comes back"""
    case = draw(programs("hexital", max_n=40))
    pool = case["pool"]
    for m in pool:
        m["kw"].pop("timeframe", None)
    own = "T5" if not case["tf"] else "T10"
    k = draw(st.integers(0, len(pool) - 1))
    pool[k]["kw"]["timeframe"] = own
    case["initial"] = len(pool)
    rows = case["preload"] + [r for op in case["ops"] if op["op"] == "append" for r in op["rows"]]
    rows = [[gs.BASE_DAY + i * 150] + r[1:] for i, r in enumerate(rows)]
    cut = max(1, len(rows) // 3)
    a, b, c = rows[:cut], rows[cut : 2 * cut], rows[2 * cut :]
    case["preload"] = a
    ops = [{"op": "calculate_all", "who": 0}, {"op": "remove_exact", "who": k}]
    if b:
        ops.append({"op": "append", "who": 0, "rows": b})
    ops.append({"op": "add_exact", "who": k})
    if c:
        ops.append({"op": "append", "who": 0, "rows": c})
    ops += [o for o in case["ops"] if o["op"] in ("purge", "recalculate", "calculate_index")][:3]
    case["ops"] = ops
    return case


def _footprint(cfg, rows, tf, standalone=False):
    from hexital import Hexital

    kw = {"timeframe": tf} if tf else {}
    if standalone:
        ind = build_indicator(cfg, candles=mk_candles(rows), **kw)
        ind.calculate()
        candles = ind.candles
    else:
        ind = build_indicator(cfg)
        hx = Hexital("solo", mk_candles(rows), [ind], **kw)
        hx.calculate()
        candles = ind.candles
    keys = set()
    for c in candles:
        keys |= set(c.indicators) | set(c.sub_indicators)
    return keys


class Driver:
    """uniform face over a Hexital and a standalone indicator"""

    def __init__(self, case):
        from hexital import Hexital

        self.case = case
        self.tf = case.get("tf")
        self.cfgs = case["pool"]
        self.names = [build_indicator(c).name for c in self.cfgs]
        self.rows = list(case["preload"])
        self.hexital = case["target"] == "hexital"
        kw = {"timeframe": self.tf} if self.tf else {}
        if self.hexital:
            self.registered = list(range(case["initial"]))
            self.obj = Hexital("c14", mk_candles(self.rows), [build_indicator(self.cfgs[i]) for i in self.registered], **kw)
        else:
            self.registered = [0]
            self.obj = build_indicator(self.cfgs[0], candles=mk_candles(self.rows), **kw)
        self.clean = {i: False for i in self.registered}

    def candles(self):
        return self.obj.candles() if self.hexital else self.obj.candles

    def ind(self, i):
        return self.obj.indicator(self.names[i]) if self.hexital else self.obj

    def manager_key(self, i):
        if not self.hexital:
            return "default"
        cm = self.ind(i).candle_manager
        return next((k for k, m in self.obj._candles.items() if m is cm), "?")

    def snapshot(self):
        """per candle manager (a Hexital member may live on its own timeframe)"""
        if self.hexital:
            return {name: snap(m.candles) for name, m in self.obj._candles.items()}
        return {"default": snap(self.obj.candles)}

    def calculate(self, i=None):
        if self.hexital:
            self.obj.calculate(None if i is None else self.names[i])
        else:
            self.obj.calculate()
        for j in self.registered:
            if i is None or i == j:
                self.clean[j] = True

    def purge(self, i=None):
        if self.hexital:
            self.obj.purge(None if i is None else self.names[i])
        else:
            self.obj.purge()
        for j in self.registered:
            if i is None or i == j:
                self.clean[j] = False

    def recalculate(self, i=None):
        if self.hexital:
            self.obj.recalculate(None if i is None else self.names[i])
        else:
            self.obj.recalculate()
        for j in self.registered:
            if i is None or i == j:
                self.clean[j] = True

    def batch_twin(self):
        from hexital import Hexital

        kw = {"timeframe": self.tf} if self.tf else {}
        if self.hexital:
            hx = Hexital("twin", mk_candles(self.rows), [build_indicator(self.cfgs[i]) for i in self.registered], **kw)
            hx.calculate()
            return {name: snap(m.candles) for name, m in hx._candles.items()}
        ind = build_indicator(self.cfgs[0], candles=mk_candles(self.rows), **kw)
        ind.calculate()
        return {"default": snap(ind.candles)}


def run_case(case) -> Result:
    labels, fired, special = [], 0, False
    try:
        names = [build_indicator(c).name for c in case["pool"]]
        if len(set(names)) != len(names):
            return Result([], False, ["duplicate_names"])
        d = Driver(case)
    except Exception:
        return Result([], False, ["setup_raises"])
    if any(c.get("cls") in NESTED for c in case["pool"][: case["initial"]]):
        labels.append("nested_helpers")
    subject = "hexital" if d.hexital else "indicator"

    def fail(kind, site, text):
        return Result([Violation(kind, site, text, subject)], fired >= 3 and special, sorted(set(labels)))

    def converge(when):
        """calculate() must not raise and must reach the batch state"""
        try:
            d.calculate()
        except Exception as exc:
            v = raises(exc, subject)
            v.kind = "calculate-" + v.kind
            v.detail = f"{when}: calculate() after the sequence: " + v.detail
            return v
        try:
            want = d.batch_twin()
        except Exception:
            return None  # the batch run itself raises: totality is C09's business
        got = d.snapshot()
        for mname, wsnap in want.items():
            # A timeframe created by a later add_indicator is copied from the base candles and may carry stray
            # entries of indicators that are NOT registered on it (they are nobody's readings there); the statement
            # speaks of the registered indicators, so only keys the batch twin knows on this timeframe are compared.
            keys = set()
            for r in wsnap:
                keys |= set(r[6]) | set(r[7])
            gsnap = [r[:6] + [{k: v for k, v in r[6].items() if k in keys}, {k: v for k, v in r[7].items() if k in keys}] for r in got.get(mname, [])]
            diff = first_diff(gsnap, wsnap)
            if diff is not None:
                i, text = diff
                return Violation("does-not-converge-to-batch", when.split(" ")[0], f"{when}: manager {mname} candle {i}: after calculate() {text} (object vs batch twin)", subject)
        return None

    try:
        for k, op in enumerate(case["ops"]):
            kind = op["op"]
            who = d.registered[op["who"] % len(d.registered)] if d.registered else None
            if kind == "remove_exact":
                kind, who = "remove", (op["who"] if op["who"] in d.registered else None)
            exact_add = None
            if kind == "add_exact":
                kind, exact_add = "add", op["who"]
            where = f"op {k} {kind}" + (f"({d.names[who]})" if who is not None and not kind.endswith("_all") else "")
            if kind == "append":
                d.obj.append(mk_candles(op["rows"]))
                d.rows += op["rows"]
                for j in d.registered:
                    d.clean[j] = True
                fired += 1
                v = converge(f"append (op {k})")
                if v:
                    return Result([v], fired >= 3 and special, sorted(set(labels)))
            elif kind in ("calculate", "calculate_all"):
                if who is None:
                    continue
                d.calculate(None if kind == "calculate_all" else who)
                once = d.snapshot()
                d.calculate(None if kind == "calculate_all" else who)
                fired += 1
                if not same(once, d.snapshot()):
                    return fail("calculate-not-idempotent", "calculate", f"{where}: " + _dict_diff(once, d.snapshot()))
            elif kind in ("recalculate", "recalculate_all"):
                if who is None:
                    continue
                target = None if kind == "recalculate_all" else who
                was_clean = all(d.clean[j] for j in d.registered) if target is None else d.clean[who]
                before = d.snapshot()
                d.recalculate(target)
                fired += 1
                special = True
                if was_clean and not same(before, d.snapshot()):
                    return fail("recalculate-changes-readings", "recalculate", f"{where}: before vs after " + _dict_diff(before, d.snapshot()))
            elif kind in ("purge", "purge_all"):
                if who is None:
                    continue
                targets = list(d.registered) if kind == "purge_all" else [who]
                foot = {}  # per candle manager: the keys the purged members write there
                for j in targets:
                    mgr = d.manager_key(j)
                    foot.setdefault(mgr, set())
                    foot[mgr] |= _footprint(d.cfgs[j], d.rows, d.tf, not d.hexital) if d.rows else set()
                before = d.snapshot()
                d.purge(None if kind == "purge_all" else who)
                after = d.snapshot()
                fired += 1
                special = True
                for mname in before:
                    fm = foot.get(mname, set())
                    for i, (b, a) in enumerate(zip(before[mname], after.get(mname, []))):
                        for slot, nm in ((6, "indicators"), (7, "sub_indicators")):
                            left = set(a[slot]) & fm
                            if left:
                                return fail("purge-leaves-entries", "purge", f"{where}: manager {mname} candle {i} {nm} still holds {sorted(left)}")
                            lost = (set(b[slot]) - fm) - set(a[slot])
                            changed = [key for key in set(a[slot]) if not same(a[slot][key], b[slot].get(key))]
                            if lost or changed:
                                return fail("purge-touches-other-entries", "purge", f"{where}: manager {mname} candle {i} {nm}: lost {sorted(lost)} changed {sorted(changed)}")
            elif kind == "calculate_index":
                if who is None or not d.clean.get(who) or not d.ind(who).candles:
                    continue
                n = len(d.ind(who).candles)
                i = op["index"] % n
                arg = i - n if op.get("negative") else i
                if op.get("negative"):
                    labels.append("negative_index")
                ind = d.ind(who)
                before = ind.as_list()
                if before[i] is None or (isinstance(before[i], dict) and all(x is None for x in before[i].values())):
                    continue  # the statement covers indices that already hold a reading
                if d.hexital:
                    d.obj.calculate_index(d.names[who], arg)
                else:
                    d.obj.calculate_index(arg)
                fired += 1
                special = True
                after = ind.as_list()
                if not same(before, after):
                    j = next(t for t, (x, y) in enumerate(zip(before, after)) if not same(x, y))
                    return fail("calculate_index-does-not-reproduce-reading", "calculate_index:" + ("negative" if op.get("negative") else "positive"), f"{where} index {arg} of {n}: candle {j}: {before[j]!r} -> {after[j]!r}")
            elif kind == "calculate_index_range":
                # Indicator.calculate_index(start, end): a range of indices that all hold readings already
                if who is None or not d.clean.get(who) or not d.ind(who).candles:
                    continue
                ind = d.ind(who)
                n = len(ind.candles)
                before = ind.as_list()
                first = next((t for t, r in enumerate(before) if r is not None and not (isinstance(r, dict) and all(x is None for x in r.values()))), None)
                if first is None or n - first < 2:
                    continue
                a = first + op["index"] % (n - first - 1)
                b = min(n, a + op["span"])
                full_before = d.snapshot()
                if op.get("negative") and b < n:  # (an end of 0 would mean "no end given")
                    labels.append("negative_range")
                    ind.calculate_index(a - n, b - n)
                else:
                    ind.calculate_index(a, b)
                fired += 1
                special = True
                if not same(before, ind.as_list()):
                    j = next(t for t, (x, y) in enumerate(zip(before, ind.as_list())) if not same(x, y))
                    return fail("calculate_index-does-not-reproduce-reading", "calculate_index:range", f"{where} range [{a},{b}) of {n}: candle {j}: {before[j]!r} -> {ind.as_list()[j]!r}")
                if not same(full_before, d.snapshot()):
                    return fail("calculate_index-changes-helper-state", "calculate_index:range", f"{where} range [{a},{b}) of {n}: " + _dict_diff(full_before, d.snapshot()))
            elif kind == "add" and d.hexital:
                free = [j for j in range(len(d.cfgs)) if j not in d.registered]
                if not free:
                    continue
                j = exact_add if exact_add in free else free[op["who"] % len(free)]
                d.obj.add_indicator(build_indicator(d.cfgs[j]) if op["who"] % 2 else dict({"indicator": _key(d.cfgs[j])}, **d.cfgs[j]["kw"]) if "cls" in d.cfgs[j] else build_indicator(d.cfgs[j]))
                d.registered.append(j)
                d.clean[j] = False
                fired += 1
            elif kind == "remove" and d.hexital:
                if who is None or len(d.registered) <= 1:
                    continue
                foot = _footprint(d.cfgs[who], d.rows, d.tf, False) if d.rows else set()
                mgr = d.manager_key(who)
                d.obj.remove_indicator(d.names[who])
                d.registered.remove(who)
                d.clean.pop(who, None)
                fired += 1
                for i, r in enumerate(d.snapshot().get(mgr, [])):
                    left = (set(r[6]) | set(r[7])) & foot
                    if left:
                        return fail("remove-leaves-entries", "remove_indicator", f"{where}: candle {i} still holds {sorted(left)}")
    except Exception as exc:
        v = raises(exc, subject)
        v.detail = f"{where}: " + v.detail
        v.site = kind + ":" + v.site
        return Result([v], fired >= 3 and special, sorted(set(labels)))
    v = converge("end-of-program")
    return Result([v] if v else [], fired >= 3 and special, sorted(set(labels)))


def _dict_diff(a, b):
    for mname in a:
        d = first_diff(a[mname], b.get(mname, []))
        if d is not None:
            return f"manager {mname} candle {d[0]}: {d[1]}"
    return "managers differ"


def _key(cfg):
    from hexital.indicators import INDICATOR_MAP
    from hexital import indicators as I

    cls = getattr(I, cfg["cls"])
    return next(k for k, v in INDICATOR_MAP.items() if v is cls)


def shards(tier):
    n = 500 if tier == "quick" else 5000
    out = [Shard(f"hexital-{i}", lambda: programs("hexital"), n, subject="hexital", cost=2) for i in range(11)]
    out += [Shard(f"indicator-{i}", lambda: programs("indicator"), n, subject="indicator") for i in range(5)]
    out += [Shard(f"hexital-churn-{i}", lambda: churn_programs(), n // 2, subject="hexital", cost=2) for i in range(2)]
    return out

"""Shared machinery for the definition properties (C04, C05, C06): run the library over a stream,
extract output series, and judge them against bounded reference series."""
from __future__ import annotations

from hxv.lib import apply_interlude, Violation, build_indicator, is_num, mk_candles, raises
from hxv.ref import bounded as bd
from hxv.ref.bounded import ANY, B, INF


def column(rows, field):
    k = {"open": 1, "high": 2, "low": 3, "close": 4, "volume": 5}[field]
    return [r[k] for r in rows]


def series(ind, field=None):
    """top-level reading series of an indicator (one dict field if given)"""
    out = []
    for c in ind.candles:
        v = c.indicators.get(ind.name)
        if field is not None:
            v = v.get(field) if isinstance(v, dict) else None
        out.append(v)
    return out


def run_batch(cfg, rows, prepare=None, inter=None, sibling_input=None, enc=None, **extra):
    """-> (indicator, None) or (None, Violation).  inter: a maintenance operation after the first inter["at"] candles
    (the rest is then appended): by C14 it leaves the batch state, so the definitions apply unchanged"""
    try:
        if enc and enc != "candle" and not prepare and not inter:
            # the same data handed over as dicts / lists (C19 judges the encodings as such; here they only vary the
            # path by which the candles reach the indicator)
            from hxv.props.c19 import encode

            ind = build_indicator(cfg, candles=[], **extra)
            ind.append(encode(rows, enc))
            ind.calculate()
            return ind, None
        candles = mk_candles(rows)
        if prepare:
            prepare(candles)
        if sibling_input and cfg.get("kw", {}).get("input_value") not in (None, sibling_input):
            # a sibling of the same class and parameters on another input, told apart only by fullname_override, is
            # calculated on the same candles first: its helper series must not be mistaken for the judged indicator's
            sib = build_indicator({"cls": cfg["cls"], "kw": dict(cfg["kw"], input_value=sibling_input)}, candles=candles, fullname_override="SIB")
            sib.calculate()
        if inter and 0 < inter["at"] % (len(candles) + 1) < len(candles):
            k = inter["at"] % (len(candles) + 1)
            ind = build_indicator(cfg, candles=candles[:k], **extra)
            ind.calculate()
            apply_interlude(ind, inter)
            ind.append(candles[k:])
            return ind, None
        ind = build_indicator(cfg, candles=candles, **extra)
        ind.calculate()
        return ind, None
    except Exception as exc:
        return None, raises(exc)


# indicators whose helpers (if any) are built without the tuned parameter, so that the documented way of changing a
# parameter midway - set the attribute, recalculate() - must give the readings of the new parameter
RETUNE_OK = ("SMA", "EMA", "RMA", "WMA", "VWMA", "ATR", "Donchian", "HighestLowest", "StandardDeviation", "RSI", "ROC", "AROON")


def retune_violation(cfg, rows, prepare, period_from, ind):
    """build with period_from, calculate, set the final parameters, recalculate(): as_list() must equal that of
    `ind` (built with the final parameters from the start)"""
    kw = cfg.get("kw", {})
    ind0, v0 = run_batch({"cls": cfg["cls"], "kw": dict(kw, period=period_from)}, rows, prepare)
    if v0 is not None:
        return None  # the first parameter choice is judged on its own elsewhere
    try:
        ind0.period = kw["period"]
        ind0.recalculate()
        got0, got = ind0.as_list(), ind.as_list()
    except Exception as exc:
        return raises(exc)
    if got0 != got:
        k = next((i for i, (a, b) in enumerate(zip(got0, got)) if a != b), 0)
        return Violation("retuned-readings-differ-from-definition", "recalculate", f"built with period {period_from}, re-tuned to {kw['period']} and recalculated: index {k} reads {got0[k]!r}, a fresh indicator {got[k]!r}")
    return None


def judge_series(field, impl, ref, stats, upto=None):
    """three warm-up/value rules per output field; returns the first Violation or None"""
    n = len(impl) if upto is None else min(upto, len(impl))
    for i in range(n):
        got, want = impl[i], ref[i]
        if want is None:
            if got is not None:
                return Violation("reading-before-definition-computable", field, f"index {i}: got {got!r}, definition has no value yet")
            continue
        if got is None:
            return Violation("reading-missing-where-defined", field, f"index {i}: no reading, definition gives {want!r}")
        if not is_num(got):
            return Violation("reading-not-numeric", field, f"index {i}: {got!r}")
        if got != got or got in (float("inf"), float("-inf")):
            return Violation("reading-not-finite", field, f"index {i}: {got!r}")
        if want is ANY:
            stats["singular_points"] = stats.get("singular_points", 0) + 1
            continue
        if want.e == INF:
            stats["ill_conditioned"] = stats.get("ill_conditioned", 0) + 1
            continue
        if not is_num(got):
            return Violation("reading-not-numeric", field, f"index {i}: {got!r}")
        stats["points_compared"] = stats.get("points_compared", 0) + 1
        tol = bd.tolerance(want)
        stats["max_err_over_tol_permille"] = max(stats.get("max_err_over_tol_permille", 0), int(1000 * abs(got - want.v) / tol))
        if abs(got - want.v) > tol:
            return Violation(
                "value-outside-rounding-bound",
                field,
                f"index {i}: got {got!r}, definition {want.v!r} +- {tol:.3g} (off by {abs(got - want.v):.6g})",
            )
    return None


def judge_exact(field, impl, ref):
    for i, (got, want) in enumerate(zip(impl, ref)):
        if got != want or type(got) is not type(want) and not (is_num(got) and is_num(want)):
            return Violation("value-differs", field, f"index {i}: got {got!r}, definition {want!r}")
    return None


def lift_rows(rows):
    """-> dict of exact bounded columns"""
    return {f: bd.lift(column(rows, f)) for f in ("open", "high", "low", "close", "volume")}

"""C02 - readings of closed candles are final: no look-ahead, no repainting."""
from __future__ import annotations

from hypothesis import strategies as st

from hxv.gen import configs as gc
from hxv.lib import Result, Violation, build_indicator, diff_key, first_diff, mk_candles, raises, snap
from hxv.props import twin
from hxv.runner import Shard

PROP = "C02"
RULE = (
    "case = C01's case plus a cut point k and optionally a Hexital holding the indicator on two timeframes; "
    "oracle (a) history invariant: deep snapshot after every append, closed part (everything on the base timeframe, "
    "all but the last bucket on a collapsing one) must be an exact prefix of the next snapshot; oracle (b) prefix "
    "metamorphic relation: closed part of batch(stream[:k]) equals the first candles of batch(stream); non-trivial = "
    ">=3 snapshots with a non-None reading inside a compared prefix, and 1<=k<n for (b)"
)
FLOORS = {"cut_inside_warmup": (0.3, None), "hexital_mode": (0.1, None)}


@st.composite
def cases(draw, subject, max_n):
    case = draw(twin.twin_cases(subject, max_n=max_n))
    n = len(case["stream"])
    w = gc.warmup(case["cfg"])
    case["cut"] = draw(st.one_of(st.integers(0, min(n, w + 2)), st.integers(0, n)))
    if draw(st.integers(0, 4)) == 0 and case["stream"] and case["stream"][0][0] is not None:
        case["hexital_tf2"] = draw(st.sampled_from(("T1", "T5", "H1", "S30")))
    return case


def closed(snapshot, tf):
    return snapshot[:-1] if tf else snapshot


def _site(a, b, i, name):
    key = diff_key(a[i], b[i]) if i < len(a) and i < len(b) else "length"
    return key.replace(name, "<name>")


@st.composite
def chain_cases(draw, max_n):
    """a Hexital whose one member reads the other's output, registered in either order: whatever a closed candle
    shows for the dependant (a value, or nothing because its source is calculated after it) must stay"""
    from hxv.props.c01 import chain_cases as base

    case = draw(base(max_n=max_n))
    case.pop("lifespan", None)
    case["down_first"] = draw(st.booleans())
    return case


def _chain_enum():
    """every (source, dependant) pair of the chain pool with small parameters, in both registration orders, fed one
    candle at a time from empty and in a few other schedules, on the base timeframe and on T5"""
    from hxv.props.c01 import DOWN, UP

    streams = twin.fixed_streams(8)
    for u in UP:
        for d_ in DOWN:
            up, down = twin.small_cfg(u), twin.small_cfg(d_)
            up["kw"].pop("input_value", None)
            up["kw"]["fullname_override"] = "UP"
            down["kw"]["input_value"] = "UP"
            down["kw"]["fullname_override"] = "DOWN"
            for si, rows in enumerate(streams[:3]):
                for down_first in (True, False):
                    for pre, chunks in ((0, [1] * 8), (1, [1, 2, 1, 3]), (0, [3, 1, 1, 1, 2])):
                        for tf in (None, "T5") if si == 2 else (None,):
                            yield {"chain": [up, down], "stream": rows, "preload": pre, "chunks": chunks, "tf": tf, "fill": False, "down_first": down_first}


def _run_chain(case) -> Result:
    from hexital import Hexital

    from hxv.lib import mgr_kwargs

    labels = ["chain", "dependant_registered_first" if case.get("down_first") else "source_registered_first"]
    up, down = case["chain"]
    order = [down, up] if case.get("down_first") else [up, down]
    pre, chunks = twin.schedule(case)
    tf = case.get("tf")
    snaps = []
    try:
        hx = Hexital("c02", mk_candles(pre), [build_indicator(c) for c in order], **mgr_kwargs(case))
        hx.calculate()
        for ch in chunks:
            hx.append(mk_candles(ch))
            snaps.append(snap(hx.candles()))
    except Exception:
        return Result([], False, labels + ["raises"])  # totality is C09, Hexital construction C08
    compared = False
    for t in range(len(snaps) - 1):
        a = closed(snaps[t], tf)
        b = snaps[t + 1][: len(a)]
        if any(r[6].get("DOWN") is not None for r in a):
            compared = True
        d = first_diff(a, b)
        if d is not None:
            i, text = d
            return Result([Violation("closed-candle-changed-by-later-append", diff_key(a[i], b[i]) if i < len(b) else "length", f"chain {[gc.subject_of(c) for c in order]} append {t + 1}, candle {i} of {len(a)} closed: before vs after {text}", "chain")], True, labels)
    return Result([], len(snaps) >= 3 and (compared or bool(case.get("down_first"))), labels)


def run_case(case) -> Result:
    if "chain" in case:
        return _run_chain(case)
    subject = gc.subject_of(case["cfg"])
    tf = case.get("tf")
    labels, viol = [], []
    w = gc.warmup(case["cfg"])
    k = max(0, min(case.get("cut", 0), len(case["stream"])))
    if k <= w:
        labels.append("cut_inside_warmup")

    # (a) history invariant, standalone indicator
    snaps = []
    try:
        ind, calls = twin.run_incremental(case, after_append=lambda ind: snaps.append(snap(ind.candles)))
    except Exception as exc:
        return Result([], False, labels + ["raises"])  # totality is C09; schedule effects are C01
    name = ind.name
    compared_reading = False
    for t in range(len(snaps) - 1):
        a = closed(snaps[t], tf)
        b = snaps[t + 1][: len(a)]
        if any(r[6].get(name) is not None for r in a):
            compared_reading = True
        d = first_diff(a, b)
        if d is not None:
            i, text = d
            viol.append(Violation("closed-candle-changed-by-later-append", _site(a, b, i, name), f"append {t + 1}, candle {i} of {len(a)} closed: before vs after {text}", subject))
            break

    # (b) prefix relation on batch runs
    n = len(case["stream"])
    if 1 <= k < n and not viol:
        try:
            full = snap(twin.run_batch(case).candles)
            part = closed(snap(twin.run_batch(case, rows=case["stream"][:k]).candles), tf)
        except Exception:
            return Result(viol, False, labels + ["raises"])
        d = first_diff(part, full[: len(part)])
        if d is not None:
            i, text = d
            viol.append(Violation("batch-reading-depends-on-later-candles", _site(part, full, i, name), f"cut {k}/{n}, candle {i}: batch(prefix) vs batch(all) {text}", subject))
        if any(r[6].get(name) is not None for r in part):
            compared_reading = True
        labels.append("prefix_checked")

    # (a) through Hexital.get_candles() with two timeframes
    if case.get("hexital_tf2") and not viol:
        labels.append("hexital_mode")
        try:
            viol += _hexital_history(case, subject)
        except Exception as exc:
            v = raises(exc, subject)
            if "Hexital" in v.detail or v.site.startswith("hexital.py"):
                pass  # Hexital-level failures belong to C08
    nontrivial = len(snaps) >= 3 and compared_reading
    return Result(viol, nontrivial, labels)


def _hexital_history(case, subject):
    from hexital import Hexital

    pre, chunks = twin.schedule(case)
    tf2 = case["hexital_tf2"]
    members = [build_indicator(case["cfg"]), build_indicator(case["cfg"], timeframe=tf2)]
    hx = Hexital("c02", mk_candles(pre), members)
    hx.calculate()
    prev = None
    for t, ch in enumerate(chunks):
        hx.append(mk_candles(ch))
        cur = {name: snap(c) for name, c in hx.get_candles().items()}
        if prev is not None:
            for mname, a in prev.items():
                a = closed(a, mname != "default")
                b = cur[mname][: len(a)]
                d = first_diff(a, b)
                if d is not None:
                    i, text = d
                    key = diff_key(a[i], b[i]) if i < len(b) else "length"
                    for m in members:
                        key = key.replace(m.name, "<name>")
                    return [Violation("hexital-closed-candle-changed-by-later-append", key, f"manager {mname}, append {t + 1}, candle {i}: {text}", subject)]
        prev = cur
    return []


def shards(tier):
    n = 300 if tier == "quick" else 4000
    mx = 50 if tier == "quick" else 160
    out = []
    for s in gc.SUBJECTS:
        cost = 3 if s in ("ADX", "TSI", "STOCH", "MACD", "HMA", "Supertrend") else 1
        out.append(Shard(s, (lambda s=s: cases(s, mx)), n, subject=s, cost=cost))
    out += [Shard(f"chain-{i}", lambda: chain_cases(mx), n, subject="chain", cost=2) for i in range(2)]
    out.append(Shard("enum-chain-orders", cases=_chain_enum, subject="chain", exhaustive=True, cost=2))
    return out

"""C18 - timeframe bucketing does not depend on the process time zone."""
from __future__ import annotations

import os
import time

from hypothesis import strategies as st

from hxv.gen import streams as gs
from hxv.lib import Result, Violation, mk_candles, raises, snap, split_chunks, tf_seconds
from hxv.ref import resample as rr
from hxv.runner import Shard

PROP = "C18"
CASE_TIMEOUT = 2.0
RULE = (
    "case = (POSIX TZ rule string incl. half-hour/45-minute offsets and DST zones, timeframe S..D, stream whose naive "
    "timestamps lie on/around the zone's transition days incl. non-existent and repeated local times, append chunks); "
    "oracle = in-process differential: collapse under TZ=<zone> (tzset) and again under TZ=UTC must give equal candles, "
    "both equal to the zone-free integer reference resampler; non-trivial = zone offset not a multiple of the timeframe "
    "or the stream lies on a transition day of the zone"
)
FLOORS = {"nontrivial_zone": (0.6, None)}
ASSUMPTIONS = ["POSIX TZ rule strings are interpreted by the C library without a tz database"]

DAY = 86400
# (TZ string, standard offset seconds east of UTC, [transition day epoch (UTC midnight of that naive date)])
D = lambda y, m, d: int(time.mktime((y, m, d, 0, 0, 0, 0, 0, 0)))  # noqa: E731  (process is pinned to UTC here)
ZONES = [
    ("UTC", 0, []),
    ("XXX-5:30", 19800, []),
    ("XXX-5:45", 20700, []),
    ("XXX+3:30", -12600, []),
    ("XXX-9", 32400, []),
    ("XXX+11", -39600, []),
    ("EST5EDT,M3.2.0,M11.1.0", -18000, [D(2023, 3, 12), D(2023, 11, 5)]),
    ("CET-1CEST,M3.5.0,M10.5.0/3", 3600, [D(2023, 3, 26), D(2023, 10, 29)]),
    ("LHST-10:30LHDT-11,M10.1.0,M4.1.0", 37800, [D(2023, 10, 1), D(2023, 4, 2)]),
    ("XXX-1YYY-1:20,M3.2.0,M11.1.0", 3600, [D(2023, 3, 12), D(2023, 11, 5)]),
    ("NZST-12NZDT,M9.5.0,M4.1.0/3", 43200, [D(2023, 9, 24), D(2023, 4, 2)]),
]
TFS = ("S30", "T1", "T5", "T15", "T45", "H1", "H1", "H2", "H4", "D1", "D1", "D7")


@st.composite
def cases(draw, max_n=30):
    zi = draw(st.integers(0, len(ZONES) - 1))
    tz, off, trans = ZONES[zi]
    tf = draw(st.sampled_from(TFS))
    tfs = tf_seconds(tf)
    if trans and draw(st.integers(0, 3)) > 0:
        day = draw(st.sampled_from(trans))
        start = day + draw(st.sampled_from((0, 3600, 5400, 7000, 7200, 7199, 9000, 10800))) - draw(st.sampled_from((0, 0, tfs, DAY)))
        on_transition = True
    else:
        day = gs.BASE_DAY + draw(st.integers(0, 300)) * DAY
        start = day + draw(st.integers(0, 86399))
        on_transition = day in trans
    n = draw(st.integers(1, max_n))
    step = max(1, draw(st.sampled_from((tfs // 4, tfs // 2, tfs, tfs, 2 * tfs, 600, 1800, 3600))))
    rows, t = [], start
    for i in range(n):
        lo = draw(st.integers(1, 20))
        hi = lo + draw(st.integers(0, 5))
        rows.append([t, draw(st.integers(lo, hi)), hi, lo, draw(st.integers(lo, hi)), draw(st.integers(0, 9))])
        t += draw(st.sampled_from((step, step, step, 0, 1, 3 * step)))
    preload = min(n, draw(st.sampled_from((0, 1, n // 2, n))))
    return {"tz": tz, "tf": tf, "stream": rows, "preload": preload, "chunks": draw(gs.chunking(n - preload)), "fill": draw(st.booleans()), "on_transition": on_transition, "mode": draw(st.sampled_from(("manager", "manager", "indicator", "hexital"))), "lifespan": draw(st.sampled_from((None, None, None, 2 * tfs, 3600, 5 * tfs + 7))), "micro": draw(st.sampled_from((False, False, False, True)))}


def _collapse(case):
    from hexital import Hexital
    from hexital.core.candle_manager import CandleManager
    from hexital.indicators import HighLowAverage

    rows = case["stream"]
    if case.get("micro"):  # sub-second timestamps: the library truncates them, whatever the zone
        rows = [[r[0] + 0.800001 + 0.001 * i] + r[1:] for i, r in enumerate(rows)]  # stays non-decreasing, < 1 s
    pre = min(case.get("preload", 0), len(rows))
    mode = case.get("mode", "manager")
    fill = bool(case.get("fill"))
    from datetime import timedelta

    life = {"candles_lifespan": timedelta(seconds=case["lifespan"])} if case.get("lifespan") else {}
    if mode == "indicator":
        m = HighLowAverage(candles=mk_candles(rows[:pre]), timeframe=case["tf"], timeframe_fill=fill, **life)
        get = lambda: m.candles  # noqa: E731
    elif mode == "hexital":
        m = Hexital("c18", mk_candles(rows[:pre]), [HighLowAverage(timeframe=case["tf"])], timeframe_fill=fill, **life)
        get = lambda: m.candles(case["tf"].upper())  # noqa: E731
    else:
        m = CandleManager(mk_candles(rows[:pre]), timeframe=case["tf"], timeframe_fill=fill, **life)
        get = lambda: m.candles  # noqa: E731
    rest = rows[pre:]
    for a, b in split_chunks(len(rest), case.get("chunks", [])):
        m.append(mk_candles(rest[a:b]))
    return snap(get(), readings=False)


def _under(tz, fn):
    old = os.environ.get("TZ")
    os.environ["TZ"] = tz
    time.tzset()
    try:
        return fn()
    finally:
        os.environ["TZ"] = old if old is not None else "UTC"
        time.tzset()


def run_case(case) -> Result:
    tz, tfs = case["tz"], tf_seconds(case["tf"])
    off = next((o for z, o, _ in ZONES if z == tz), 0)
    nontrivial = (off % tfs != 0) or bool(case.get("on_transition") and tz != "UTC" and any(z == tz and t for z, _, t in ZONES))
    labels = ["nontrivial_zone"] if nontrivial else []
    labels.append("zone:" + tz.split(",")[0])
    want = rr.resample(case["stream"], tfs, fill=bool(case.get("fill")))
    viol = []

    def outcome(tzname):
        """the candles, or the kind of failure: the property is about the two zones behaving alike"""
        try:
            return _under(tzname, lambda: _collapse(case))
        except Exception as exc:
            v = raises(exc, "zone")
            return ("fails", v.kind, v.site)

    utc = outcome("UTC")
    got = outcome(tz)
    if isinstance(utc, tuple) and got == utc:
        return Result([], False, labels + ["fails_alike_under_utc"])  # not a question of time zones
    if got != utc:
        if isinstance(got, tuple) or isinstance(utc, tuple):
            viol.append(Violation("differs-between-zones", "outcome", f"TZ={tz} tf={case['tf']}: {str(got)[:160]} vs UTC {str(utc)[:160]}", "zone"))
        else:
            k = next((i for i, (a, b) in enumerate(zip(got, utc)) if a != b), min(len(got), len(utc)))
            viol.append(Violation("differs-between-zones", "collapse", f"TZ={tz} tf={case['tf']} candle {k}: {got[k] if k < len(got) else None} vs UTC {utc[k] if k < len(utc) else None} (len {len(got)} vs {len(utc)})", "zone"))
    elif got != want and not case.get("lifespan") and not case.get("micro"):
        k = next((i for i, (a, b) in enumerate(zip(got, want)) if a != b), min(len(got), len(want)))
        viol.append(Violation("differs-from-reference", "collapse", f"TZ={tz} candle {k}: {got[k] if k < len(got) else None} vs {want[k] if k < len(want) else None}", "zone"))
    return Result(viol, nontrivial, labels)


def _grid():
    """every zone x every timeframe on fixed streams that start on a transition day (or the base day)"""
    for tz, off, trans in ZONES:
        for tf in sorted(set(TFS)):
            tfs = tf_seconds(tf)
            for day in (trans + [gs.BASE_DAY])[:3]:
                for start_off, step in ((0, max(1, tfs // 2)), (3600 + 1800 + 1, max(1, tfs // 3)), (7200 - tfs, tfs)):
                    rows = [[day + start_off + i * step, 5 + i % 3, 9 + i % 3, 4, 6 + i % 2, i % 4] for i in range(24)]
                    yield {"tz": tz, "tf": tf, "stream": rows, "preload": 5, "chunks": [1, 1, 7, 2], "fill": day != gs.BASE_DAY, "on_transition": day in trans, "mode": "manager"}


def shards(tier):
    n = 600 if tier == "quick" else 40000
    return [Shard("enum-zone-x-timeframe", cases=_grid, subject="zone", exhaustive=True)] + [Shard(f"gen-{i}", lambda: cases(), n, subject="zone") for i in range(14)] + [
        Shard(f"gen-long-{i}", lambda: cases(max_n=90), n // 3, subject="zone", cost=2) for i in range(2)
    ]

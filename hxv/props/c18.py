"""C18 - timeframe bucketing does not depend on the process time zone."""
from __future__ import annotations

import json
import os
import subprocess
import sys
import time

from hypothesis import strategies as st

from hxv.gen import streams as gs
from hxv.lib import mk_candles as _mk
from hxv.lib import Result, Violation, mk_candles, raises, snap, split_chunks, tf_seconds
from hxv.ref import resample as rr
from hxv.runner import Shard

PROP = "C18"
CASE_TIMEOUT = 2.0
RULE = (
    "case = (POSIX TZ rule string incl. half-hour/45-minute offsets and DST zones, timeframe S..D, stream whose naive "
    "timestamps lie on/around the zone's transition days incl. non-existent and repeated local times, append chunks); "
    "oracle = in-process differential: collapse under TZ=<zone> (tzset) and again under TZ=UTC must give equal candles, "
    "both equal to the zone-free integer reference resampler; non-trivial = zone offset not a multiple of the timeframe "
    "or the stream lies on a transition day of the zone; fresh-process shards: a batch of such cases is collapsed by a "
    "child interpreter STARTED under TZ=<zone> (library imported under that zone, never switched) and compared with the "
    "same batch collapsed under UTC and with the reference, which reaches zone-dependent state computed at import time"
)
FLOORS = {"nontrivial_zone": (0.6, None)}
ASSUMPTIONS = ["POSIX TZ rule strings are interpreted by the C library without a tz database"]

DAY = 86400
# (TZ string, standard offset seconds east of UTC, [transition day epoch (UTC midnight of that naive date)])
D = lambda y, m, d: int(time.mktime((y, m, d, 0, 0, 0, 0, 0, 0)))  # noqa: E731  (process is pinned to UTC here)
ZONES = [
    ("UTC", 0, []),
    ("XXX-5:30", 19800, []),
    ("XXX-5:45", 20700, []),
    ("XXX+3:30", -12600, []),
    ("XXX-9", 32400, []),
    ("XXX+11", -39600, []),
    ("EST5EDT,M3.2.0,M11.1.0", -18000, [D(2023, 3, 12), D(2023, 11, 5)]),
    ("CET-1CEST,M3.5.0,M10.5.0/3", 3600, [D(2023, 3, 26), D(2023, 10, 29)]),
    ("LHST-10:30LHDT-11,M10.1.0,M4.1.0", 37800, [D(2023, 10, 1), D(2023, 4, 2)]),
    ("XXX-1YYY-1:20,M3.2.0,M11.1.0", 3600, [D(2023, 3, 12), D(2023, 11, 5)]),
    ("NZST-12NZDT,M9.5.0,M4.1.0/3", 43200, [D(2023, 9, 24), D(2023, 4, 2)]),
]
TFS = ("S30", "T1", "T5", "T15", "T45", "H1", "H1", "H2", "H4", "D1", "D1", "D7")


@st.composite
def cases(draw, max_n=30):
    zi = draw(st.integers(0, len(ZONES) - 1))
    tz, off, trans = ZONES[zi]
    tf = draw(st.sampled_from(TFS))
    tfs = tf_seconds(tf)
    if trans and draw(st.integers(0, 3)) > 0:
        day = draw(st.sampled_from(trans))
        start = day + draw(st.sampled_from((0, 3600, 5400, 7000, 7200, 7199, 9000, 10800))) - draw(st.sampled_from((0, 0, tfs, DAY)))
        on_transition = True
    else:
        day = gs.BASE_DAY + draw(st.integers(0, 300)) * DAY
        start = day + draw(st.integers(0, 86399))
        on_transition = day in trans
    n = draw(st.integers(1, max_n))
    step = max(1, draw(st.sampled_from((tfs // 4, tfs // 2, tfs, tfs, 2 * tfs, 600, 1800, 3600))))
    rows, t = [], start
    for i in range(n):
        lo = draw(st.integers(1, 20))
        hi = lo + draw(st.integers(0, 5))
        rows.append([t, draw(st.integers(lo, hi)), hi, lo, draw(st.integers(lo, hi)), draw(st.integers(0, 9))])
        t += draw(st.sampled_from((step, step, step, 0, 1, 3 * step)))
    preload = min(n, draw(st.sampled_from((0, 1, n // 2, n))))
    return {"tz": tz, "tf": tf, "stream": rows, "preload": preload, "chunks": draw(gs.chunking(n - preload)), "fill": draw(st.booleans()), "on_transition": on_transition, "mode": draw(st.sampled_from(("manager", "manager", "indicator", "hexital"))), "lifespan": draw(st.sampled_from((None, None, None, 2 * tfs, 3600, 5 * tfs + 7))), "micro": draw(st.sampled_from((False, False, False, True))), "tzoff": draw(st.sampled_from((None, None, None, None, 0, 330, -300)))}


def _collapse(case):
    from hexital import Hexital
    from hexital.core.candle_manager import CandleManager
    from hexital.indicators import HighLowAverage

    rows = case["stream"]
    if case.get("micro"):  # sub-second timestamps: the library truncates them, whatever the zone
        rows = [[r[0] + 0.800001 + 0.001 * i] + r[1:] for i, r in enumerate(rows)]  # stays non-decreasing, < 1 s
    pre = min(case.get("preload", 0), len(rows))
    mode = case.get("mode", "manager")
    fill = bool(case.get("fill"))
    mk_candles = lambda rr_: _mk(rr_, case.get("tzoff"))  # noqa: E731  (aware timestamps: their own offset rules, not TZ)
    from datetime import timedelta

    life = {"candles_lifespan": timedelta(seconds=case["lifespan"])} if case.get("lifespan") else {}
    if mode == "indicator":
        m = HighLowAverage(candles=mk_candles(rows[:pre]), timeframe=case["tf"], timeframe_fill=fill, **life)
        get = lambda: m.candles  # noqa: E731
    elif mode == "hexital":
        m = Hexital("c18", mk_candles(rows[:pre]), [HighLowAverage(timeframe=case["tf"])], timeframe_fill=fill, **life)
        get = lambda: m.candles(case["tf"].upper())  # noqa: E731
    else:
        m = CandleManager(mk_candles(rows[:pre]), timeframe=case["tf"], timeframe_fill=fill, **life)
        get = lambda: m.candles  # noqa: E731
    rest = rows[pre:]
    for a, b in split_chunks(len(rest), case.get("chunks", [])):
        m.append(mk_candles(rest[a:b]))
    return snap(get(), readings=False)


def _under(tz, fn):
    old = os.environ.get("TZ")
    os.environ["TZ"] = tz
    time.tzset()
    try:
        return fn()
    finally:
        os.environ["TZ"] = old if old is not None else "UTC"
        time.tzset()


def _child_main():
    """python -m hxv.props.c18 --child : read a batch from stdin, collapse every item under the zone this
    interpreter was started with, print one outcome line per item as it goes. CPU- and memory-limited, so a
    runaway item ends the child; the parent attributes the death to the item that was being collapsed."""
    import gc
    import resource

    resource.setrlimit(resource.RLIMIT_CPU, (CHILD_CPU, CHILD_CPU + 5))
    resource.setrlimit(resource.RLIMIT_AS, (CHILD_MEM, CHILD_MEM))
    items = json.load(sys.stdin)
    print("READY " + json.dumps({"tz": os.environ.get("TZ"), "tzname": list(time.tzname)}), flush=True)
    for it in items:
        try:
            o = ["ok", _collapse(it)]
        except MemoryError:
            raise
        except Exception as exc:
            v = raises(exc, "zone")
            o = ["fails", v.kind, v.site]
        print(json.dumps(o), flush=True)
        gc.collect()


CHILD_CPU = 120
CHILD_MEM = 2 << 30
DIED = ["fails", "hangs-or-runs-away", "child-died"]


def _fresh(tz, items):
    """outcomes of `items` in child interpreters started under TZ=tz; (None, why) when they could not be judged"""
    import hxv
    from hxv import HarnessError

    env = dict(os.environ, TZ=tz, HXV_KEEP_TZ="1", HEXITAL_SRC=hxv.SRC, PYTHONPATH=hxv.VERIF + os.pathsep + hxv.SRC, PYTHONHASHSEED="0")
    out, todo = [], list(items)
    while todo:
        try:
            p = subprocess.run([sys.executable, "-m", "hxv.props.c18", "--child"], input=json.dumps(todo), capture_output=True, text=True, env=env, timeout=1800)
        except subprocess.TimeoutExpired:
            return None, "wall-clock"
        lines = p.stdout.splitlines()
        if not lines or not lines[0].startswith("READY "):
            raise HarnessError(f"C18 child did not start rc={p.returncode}: {p.stderr[-400:]}")
        if json.loads(lines[0][6:])["tz"] != tz:
            raise HarnessError(f"C18 child ran under {lines[0]} instead of TZ={tz}")
        got = [json.loads(x) for x in lines[1:]]
        out += got
        if len(got) == len(todo) and p.returncode == 0:
            break
        # the child died while collapsing item len(got): out of memory or out of CPU on a stream of a few dozen candles
        if not ("MemoryError" in p.stderr or p.returncode in (-24, -9, 128 + 24, 128 + 9)):
            raise HarnessError(f"C18 child failed rc={p.returncode}: {p.stderr[-400:]}")
        out.append(DIED)
        todo = todo[len(got) + 1 :]
    return out, None


def _norm(x):
    return json.loads(json.dumps(x))


def run_fresh(case) -> Result:
    tz, items = case["tz"], case["items"]
    off = next((o for z, o, _ in ZONES if z == tz), 0)
    labels = ["fresh_process", "zone:" + tz.split(",")[0]]
    out, why = _fresh(tz, items)
    if out is None:
        return Result([], False, labels + ["inconclusive_child_timeout"])
    viol, nontrivial = [], False
    for k, (it, o) in enumerate(zip(items, out)):
        tfs = tf_seconds(it["tf"])
        if off % tfs != 0 or it.get("on_transition"):
            nontrivial = True
        try:
            utc = ["ok", _norm(_under("UTC", lambda: _collapse(it)))]
        except Exception as exc:
            from hxv.runner import CaseTimeout

            if isinstance(exc, (CaseTimeout, MemoryError)):
                raise
            v = raises(exc, "zone")
            utc = ["fails", v.kind, v.site]
        if o == utc:
            continue
        if o[0] == "ok" and utc[0] == "ok":
            j = next((i for i, (a, b) in enumerate(zip(o[1], utc[1])) if a != b), min(len(o[1]), len(utc[1])))
            d = f"item {k} TZ={tz} tf={it['tf']} candle {j}: {o[1][j] if j < len(o[1]) else None} vs UTC {utc[1][j] if j < len(utc[1]) else None} (len {len(o[1])} vs {len(utc[1])})"
        else:
            d = f"item {k} TZ={tz} tf={it['tf']}: {str(o)[:160]} vs UTC {str(utc)[:160]}"
        viol.append(Violation("differs-between-zones", "fresh-process", d, "zone"))
        break
    if nontrivial:
        labels.append("nontrivial_zone")
    return Result(viol, nontrivial, labels, {"max_batch": len(items)})


def run_case(case) -> Result:
    if "items" in case:
        return run_fresh(case)
    tz, tfs = case["tz"], tf_seconds(case["tf"])
    off = next((o for z, o, _ in ZONES if z == tz), 0)
    nontrivial = (off % tfs != 0) or bool(case.get("on_transition") and tz != "UTC" and any(z == tz and t for z, _, t in ZONES))
    labels = ["nontrivial_zone"] if nontrivial else []
    labels.append("zone:" + tz.split(",")[0])
    want = rr.resample(case["stream"], tfs, fill=bool(case.get("fill")))
    viol = []

    def outcome(tzname):
        """the candles, or the kind of failure: the property is about the two zones behaving alike"""
        try:
            return _under(tzname, lambda: _collapse(case))
        except Exception as exc:
            from hxv.runner import CaseTimeout

            if isinstance(exc, (CaseTimeout, MemoryError)):
                raise  # the watchdog's business (it confirms with a larger budget), not an outcome to compare
            v = raises(exc, "zone")
            return ("fails", v.kind, v.site)

    utc = outcome("UTC")
    got = outcome(tz)
    if isinstance(utc, tuple) and got == utc:
        return Result([], False, labels + ["fails_alike_under_utc"])  # not a question of time zones
    if got != utc:
        if isinstance(got, tuple) or isinstance(utc, tuple):
            viol.append(Violation("differs-between-zones", "outcome", f"TZ={tz} tf={case['tf']}: {str(got)[:160]} vs UTC {str(utc)[:160]}", "zone"))
        else:
            k = next((i for i, (a, b) in enumerate(zip(got, utc)) if a != b), min(len(got), len(utc)))
            viol.append(Violation("differs-between-zones", "collapse", f"TZ={tz} tf={case['tf']} candle {k}: {got[k] if k < len(got) else None} vs UTC {utc[k] if k < len(utc) else None} (len {len(got)} vs {len(utc)})", "zone"))
    elif got != want and not case.get("lifespan") and not case.get("micro"):
        k = next((i for i, (a, b) in enumerate(zip(got, want)) if a != b), min(len(got), len(want)))
        viol.append(Violation("differs-from-reference", "collapse", f"TZ={tz} candle {k}: {got[k] if k < len(got) else None} vs {want[k] if k < len(want) else None}", "zone"))
    return Result(viol, nontrivial, labels)


def _grid():
    """every zone x every timeframe on fixed streams that start on a transition day (or the base day)"""
    for tz, off, trans in ZONES:
        for tf in sorted(set(TFS)):
            tfs = tf_seconds(tf)
            for day in (trans + [gs.BASE_DAY])[:3]:
                for start_off, step in ((0, max(1, tfs // 2)), (3600 + 1800 + 1, max(1, tfs // 3)), (7200 - tfs, tfs)):
                    rows = [[day + start_off + i * step, 5 + i % 3, 9 + i % 3, 4, 6 + i % 2, i % 4] for i in range(24)]
                    yield {"tz": tz, "tf": tf, "stream": rows, "preload": 5, "chunks": [1, 1, 7, 2], "fill": day != gs.BASE_DAY, "on_transition": day in trans, "mode": "manager"}


def _fresh_grid():
    """one child per zone: the whole enum grid of that zone, collapsed by an interpreter born in the zone"""
    by = {}
    for c in _grid():
        by.setdefault(c["tz"], []).append(c)
    for tz, items in by.items():
        if tz != "UTC":
            yield {"tz": tz, "items": items}


@st.composite
def fresh_cases(draw, k=12):
    zi = draw(st.integers(1, len(ZONES) - 1))
    items = []
    for _ in range(draw(st.integers(k // 2, k))):
        c = draw(cases(max_n=24))
        tz, off, trans = ZONES[zi]
        c["tz"] = tz
        c["on_transition"] = bool(c["on_transition"] and trans and any(abs(c["stream"][0][0] - t) < 3 * DAY for t in trans))
        items.append(c)
    return {"tz": ZONES[zi][0], "items": items}


def shards(tier):
    n = 600 if tier == "quick" else 40000
    return [Shard("enum-zone-x-timeframe", cases=_grid, subject="zone", exhaustive=True)] + [Shard(f"gen-{i}", lambda: cases(), n, subject="zone") for i in range(14)] + [
        Shard(f"gen-long-{i}", lambda: cases(max_n=90), n // 3, subject="zone", cost=2) for i in range(2)
    ] + [Shard("enum-fresh-process", cases=_fresh_grid, subject="zone", exhaustive=True, cost=2)] + [
        Shard(f"fresh-process-{i}", lambda: fresh_cases(), 6 if tier == "quick" else 150, subject="zone", cost=2) for i in range(4)
    ]


if __name__ == "__main__" and "--child" in sys.argv:
    _child_main()

"""C17 - movement, candle-shape and pattern predicates mean what they document."""
from __future__ import annotations

from hypothesis import strategies as st

from hxv.gen import streams as gs
from hxv.lib import MOVEMENT_MAP, PATTERN_MAP, Result, Violation, mk_candles, raises
from hxv.ref import movement as rm
from hxv.runner import Shard

PROP = "C17"
RULE = (
    "four sub-domains. movement: candle lists with two synthetic readings on a tiny integer grid with missing entries, every "
    "index >= 1, length 1..8, library result vs reference predicate written from the docstrings (window = current candle and "
    "`length` before it, strict comparisons, most recent extreme on ties, missing ignored); highestbar/lowestbar accept either "
    "reading of `length` consistently per case.  geometry: well-formed candles on all grids, body/shadows/range/positive/negative "
    "exact.  pattern witnesses: random history of 11..20 candles + a constructed candle meeting every documented clause with "
    "margin m>=2 under both readings of 'average of the last 10' (must be reported) or breaking exactly one clause by m (must not). "
    " invariance: prices x 2^k and + grid constant on dyadic grids leave every predicate identical.  non-trivial = movement: >=2 "
    "present readings in the window and a tie or missing entry; witness: always; invariance: >=12 candles"
)
MOVES = ("above", "below", "rising", "falling", "mean_rising", "mean_falling", "highest", "lowest", "highestbar", "lowestbar", "value_range", "crossover", "crossunder")
PATS = ("doji", "dojistar", "hammer", "inv_hammer")


def _mv(name):
    from hexital.analysis import movement

    return getattr(movement, name)


# ------------------------------------------------------------------ movement
@st.composite
def movement_cases(draw, name):
    n = draw(st.integers(2, 30))
    pmiss = draw(st.sampled_from((0, 0.2, 0.5)))
    miss = st.sampled_from((False,) * 10 if pmiss == 0 else (True,) * 2 + (False,) * 8 if pmiss == 0.2 else (True, False))
    val = draw(st.sampled_from((st.integers(0, 3), st.integers(0, 3), st.integers(-5, 5), st.sampled_from((0.0, 0.25, 0.5, 1.0, 1.25)))))
    A = [None if draw(miss) else draw(val) for _ in range(n)]
    B = [None if draw(miss) else draw(val) for _ in range(n)]
    src = draw(st.sampled_from(("reading", "reading", "reading", "volume")))
    if src == "volume":  # the series is a candle field that is legitimately 0 on some candles
        A = [draw(st.sampled_from((0, 0, 1, 2, 3))) for _ in range(n)]
    return {"kind": "movement", "fn": name, "A": A, "B": B, "src": src, "length": draw(st.integers(2 if name == "value_range" else 1, 8))}


def _run_movement(case):
    name, A, B, length = case["fn"], case["A"], case["B"], case["length"]
    n = len(A)
    rows = [[None, 10.0, 11.0, 9.0, 10.0, 1] for _ in range(n)]
    cs = mk_candles(rows)
    first = "A"
    if case.get("src") == "volume":
        first = "volume"
        for c, a in zip(cs, A):
            c.volume = a
    for c, a, b in zip(cs, A, B):
        if a is not None and first == "A":
            c.indicators["A"] = a
        if b is not None:
            c.indicators["B"] = b
    f = _mv(name)
    viol, nontrivial = [], False
    conventions = {True, False}  # highestbar/lowestbar: does `length` count the current candle?
    for i in range(1, n):
        try:
            if name in ("above", "below"):
                got = f(cs, first, "B", index=i)
            elif name in ("crossover", "crossunder"):
                got = f(cs, first, "B", length=length, index=i)
            else:
                got = f(cs, first, length=length, index=i)
        except Exception as exc:
            v = raises(exc, name)
            v.detail = f"index {i}: " + v.detail
            return [v], nontrivial
        w = [x for x in A[max(0, i - length) : i + 1] if x is not None]
        if len(w) >= 2 and (len(set(w)) < len(w) or None in A[max(0, i - length) : i + 1]):
            nontrivial = True
        if name in ("highestbar", "lowestbar"):
            ok_for = set()
            for counts_current in (True, False):
                want = rm.extreme_bar(A, i, length if counts_current else length + 1, high=name == "highestbar")
                if want is None or got == want:
                    ok_for.add(counts_current)
            conventions &= ok_for
            if not conventions:
                return [Violation("differs-from-documented-meaning", name, f"index {i} length {length}: got {got!r}; series {A[max(0, i - length - 1) : i + 1]} (neither reading of `length` fits the whole case)", name)], nontrivial
            continue
        if name == "above":
            want = rm.above(A, B, i)
        elif name == "below":
            want = rm.below(A, B, i)
        elif name == "crossover":
            want = rm.crossover(A, B, i, length)
        elif name == "crossunder":
            want = rm.crossunder(A, B, i, length)
        else:
            want = getattr(rm, name)(A, i, length)
        if got != want or (isinstance(want, bool) and not isinstance(got, bool)):
            return [Violation("differs-from-documented-meaning", name, f"index {i} length {length}: got {got!r} want {want!r}; A={A[max(0, i - length - 1) : i + 1]} B={B[max(0, i - length - 1) : i + 1]}", name)], nontrivial
    return viol, nontrivial


# ------------------------------------------------------------------ geometry
@st.composite
def geometry_cases(draw):
    rows = draw(gs.streams(1, 30, with_ts=False))
    # the geometry is a function of the candle's CURRENT prices: it is read, the library rewrites the candle
    # (Heikin-Ashi conversion, merge, recovery of the raw values), and it is read again
    then = draw(st.lists(st.sampled_from(("ha", "ha_hexital", "merge", "recover", "ha", "merge")), max_size=3))
    return {"kind": "geometry", "stream": rows, "then": then}


def _geometry_of(cs, when):
    for i, c in enumerate(cs):
        o, h, l, cl = c.open, c.high, c.low, c.close
        want = {
            "realbody": abs(o - cl),
            "shadow_upper": h - max(o, cl),
            "shadow_lower": min(o, cl) - l,
            "high_low": h - l,
            "positive": cl > o,
            "negative": cl < o,
        }
        for k, w in want.items():
            g = getattr(c, k)
            if g != w or isinstance(w, bool) != isinstance(g, bool):
                return Violation("geometry-differs", k + when, f"candle {i} o={o} h={h} l={l} c={cl}: {k}={g!r} want {w!r}", "Candle")
    return None


def _run_geometry(case):
    cs = mk_candles(case["stream"])
    v = _geometry_of(cs, "")
    for step in case.get("then", []):
        if v:
            break
        try:
            if step == "ha":
                from hexital.candlesticks.heikinashi import HeikinAshi
                from hexital.core.candle_manager import CandleManager

                cs = CandleManager(cs, candlestick_type=HeikinAshi()).candles
            elif step == "ha_hexital":
                from hexital import Hexital

                cs = Hexital("geometry", cs, [], candlestick_type="HA").candles()
            elif step == "merge":
                for k in range(0, len(cs) - 1, 2):
                    cs[k].merge(cs[k + 1])
                cs = cs[::2]
            elif step == "recover":
                for c in cs:
                    c.recover_clean_values()
        except Exception as exc:
            from hxv.lib import raises

            return [raises(exc, "Candle")], True
        v = _geometry_of(cs, ":after-" + step)
    return ([v] if v else []), len(case["stream"]) >= 1


# ------------------------------------------------------------------ pattern witnesses
TICK = 0.25


@st.composite
def witness_cases(draw, pattern):
    hist = draw(st.integers(11, 20))
    base = draw(st.sampled_from((2000, 4000, 40000)))  # ticks
    rows, pc = [], base
    # the last five candles may trade in a much narrower (or wider) range than those before them: the documented
    # 5-candle window of 'near' and the 10-candle windows of the other clauses then disagree by a clear factor
    regime = draw(st.sampled_from((1, 1, 6, 6, -6)))
    for k in range(hist):
        body = draw(st.integers(10, 60)) * draw(st.sampled_from((1, -1)))
        o, c = pc, pc + body
        up, dn = draw(st.integers(5, 40)), draw(st.integers(5, 40))
        if (regime > 1 and k < hist - 5) or (regime < 0 and k >= hist - 5):
            up, dn = up * abs(regime), dn * abs(regime)
        rows.append([o, max(o, c) + up, min(o, c) - dn, c])
        pc = c
    m = draw(st.sampled_from((2, 2, 3, 4)))
    breaks = draw(st.sampled_from((None, None) + {"doji": ("body",), "dojistar": ("prev_body", "prev_window", "body", "gap"), "hammer": ("body", "lower", "upper", "near"), "inv_hammer": ("body", "upper", "lower", "gap")}[pattern]))
    return {"kind": "witness", "pattern": pattern, "history": rows, "m": m, "break": breaks, "extra": [draw(st.integers(0, 30)) for _ in range(4)]}


def _avg(vals, i, length, incl):
    w = vals[i - length + 1 : i + 1] if incl else vals[i - length : i]
    return sum(w) / length


def _build_witness(case):
    """-> rows in ticks [o,h,l,c] including the constructed candle(s)"""
    rows = [list(r) for r in case["history"]]
    pat, m, br, ex = case["pattern"], case["m"], case["break"], case["extra"]
    hl = lambda r: r[1] - r[2]  # noqa: E731
    body = lambda r: abs(r[0] - r[3])  # noqa: E731
    if pat == "dojistar":
        # candle i-1: long body relative to the 10 bodies before/including it
        if br == "prev_window":
            # uneven history: one huge body ten candles before the star - inside the 10-candle window that ends at
            # the previous candle (whichever way it is read), outside a window that ends at the star itself
            r = rows[-9]
            rows[-9] = [r[0], r[0] + 6005, r[2], r[0] + 6000]
        s9 = sum(body(r) for r in rows[-9:])
        s10 = sum(body(r) for r in rows[-10:])
        need = max(m * s9 / (10 - m), m * s10 / 10)
        up = ex[0] % 2 == 0
        if br in ("prev_body", "prev_window"):
            b = max(1, int(min(s9 / 10, s10 / 10) / m))
        else:
            b = int(need) + 2 + ex[1]
        o = rows[-1][3]
        c = o + b if up else o - b
        rows.append([o, max(o, c) + 5, min(o, c) - 5, c])
    prev = rows[-1]
    i = len(rows)  # index of the candle under construction
    hls = [hl(r) for r in rows]
    bodies = [body(r) for r in rows]
    rng_guess = 60 + ex[2]

    def avg_both(vals, cur, length=10):
        incl = (sum(vals[i - length + 1 :]) + cur) / length
        excl = sum(vals[i - length :]) / length
        return min(incl, excl), max(incl, excl)

    if pat == "doji":
        lo_avg, hi_avg = avg_both(hls, rng_guess)
        b = int(0.1 * lo_avg / m) if br is None else int(m * 0.1 * hi_avg) + 1
        b = min(b, rng_guess)
        o = prev[3]
        c = o + b
        spare = rng_guess - b
        rows.append([o, c + spare // 2, o - (spare - spare // 2), c])
    elif pat == "dojistar":
        lo_avg, hi_avg = avg_both(hls, rng_guess)
        b = int(0.1 * lo_avg / m) if br != "body" else int(m * 0.1 * hi_avg) + 1
        b = min(b, rng_guess)
        up = prev[3] > prev[0]
        ptop, pbot = max(prev[0], prev[3]), min(prev[0], prev[3])
        if br == "gap" and ex[2] % 2 == 0 and b >= 2:
            # body straddles the edge of the previous body it should have cleared
            o = (ptop - 1) if up else (pbot - b + 1)
            c = o + b
        elif br == "gap":
            o = (ptop + pbot) // 2  # body inside the previous body
            c = o + b if o + b < ptop else o
        elif up:
            o = ptop + 3 + ex[3]
            c = o + b
        else:
            c = pbot - 3 - ex[3]
            o = c - b
            o, c = c, o  # keep a negative or flat tiny body below
        spare = max(rng_guess - abs(o - c), 0)
        rows.append([o, max(o, c) + spare // 2, min(o, c) - (spare - spare // 2), c])
    else:  # hammer / inverted hammer
        lo_b, hi_b = avg_both(bodies, 0)
        # the candle's own body enters the inclusive average: solve b <= (S9 + b)/(10 m)  ->  take b small enough
        b = max(0, int(lo_b / m) - 1) if br != "body" else int(m * hi_b * 10 / 9) + 2
        long_sh = max(m * b, 4) + 2 + ex[3] if br not in ("lower" if pat == "hammer" else "upper",) else max(0, int(b / m) - 1) if b else 0
        if br == "near" and ex[2] % 2 == 1:
            long_sh += 12 * max(hls[-5:])  # a huge wick: the candle's own range must not widen its 'near' allowance
        if br in ("lower" if pat == "hammer" else "upper",) and b == 0:
            b, long_sh = 4, 1
        lo_hl, hi_hl = avg_both(hls, b + long_sh)
        short_sh = 0 if br not in ("upper" if pat == "hammer" else "lower",) else int(m * 0.1 * max(hi_hl, (sum(hls[i - 9 :]) + b + long_sh) / 9)) + 2
        if pat == "hammer":
            near5 = [hl(r) for r in rows]
            a5_incl = sum(near5[-5:]) / 5
            a5_excl = sum(near5[-6:-1]) / 5
            if br == "near":
                bottom = prev[2] + int(m * 0.2 * max(a5_incl, a5_excl)) + 2
            else:
                bottom = prev[2] - 2
            o, c = bottom, bottom + b
            rows.append([o, c + short_sh, o - long_sh, c])
        else:
            pbot = min(prev[0], prev[3])
            if br == "gap" and ex[2] % 2 == 0:
                b = max(b, 6)  # body straddles the bottom of the previous body
                top = pbot + b - 3
            elif br == "gap":
                top = pbot + 3 + b  # body entirely inside / above the previous body
            else:
                top = pbot - 3
            c, o = top, top - b
            rows.append([o, c + long_sh, o - short_sh, c])
    return rows


def _run_witness(case):
    pat = case["pattern"]
    rows = _build_witness(case)
    if any(r[2] <= 0 or not (r[2] <= min(r[0], r[3]) and max(r[0], r[3]) <= r[1]) for r in rows):
        return [], False  # construction left the well-formed domain (counted as trivial)
    stream = [[None, r[0] * TICK, r[1] * TICK, r[2] * TICK, r[3] * TICK, 1] for r in rows]
    cs = mk_candles(stream)
    f = PATTERN_MAP[pat]
    i = len(cs) - 1
    try:
        got = {"index": f(cs, index=i), "default": f(cs), "negative": f(cs, index=-1)}
    except Exception as exc:
        return [raises(exc, pat)], True
    want = case["break"] is None
    for how, g in got.items():
        if bool(g) != want:
            kind = "witness-not-reported" if want else "counter-witness-reported"
            what = "all clauses hold" if want else f"clause '{case['break']}' is violated"
            return [Violation(kind, pat + ":" + (case["break"] or "witness"), f"{pat} via {how}: got {g!r}; {what} by a factor {case['m']}; last candles (o,h,l,c) {[r for r in stream[-2:]]}", pat)], True
    return [], True


# ------------------------------------------------------------------ invariance
@st.composite
def invariance_cases(draw):
    grid = draw(st.sampled_from(((0.25, 2), (1.0, 0), (0.5, 1))))
    base = draw(st.sampled_from((100, 4000, 40000)))
    n = draw(st.integers(12, 40))
    rows = draw(gs.price_rows(n, grid=grid, base=base))
    return {"kind": "invariance", "stream": [[None] + r for r in rows], "k": draw(st.sampled_from((-24, -20, -17, -12, -6, -2, -1, 1, 2, 5, 10))), "shift_ticks": draw(st.integers(-50, 4000)), "tick": grid[0], "length": draw(st.integers(1, 6))}


def _predicates(rows, length):
    cs = mk_candles(rows)
    out = []
    for i in range(len(cs)):
        row = [cs[i].positive, cs[i].negative]
        for name in ("doji", "dojistar", "hammer", "inv_hammer"):
            row.append(PATTERN_MAP[name](cs, index=i))
        for name in ("rising", "falling", "mean_rising", "mean_falling", "highestbar", "lowestbar"):
            row.append(MOVEMENT_MAP[name](cs, "close", length=length, index=i))
        for name in ("crossover", "crossunder", "cross"):
            row.append(MOVEMENT_MAP[name](cs, "close", "open", length=length, index=i))
        row.append(_mv("above")(cs, "close", "open", index=i))
        row.append(_mv("below")(cs, "high", "close", index=i))
        out.append(row)
    return out


NAMES = ["positive", "negative", "doji", "dojistar", "hammer", "inv_hammer", "rising", "falling", "mean_rising", "mean_falling", "highestbar", "lowestbar", "crossover", "crossunder", "cross", "above", "below"]


def _run_invariance(case):
    rows = case["stream"]
    f = 2.0 ** case["k"]
    shift = case["shift_ticks"] * case["tick"]
    lo = min(r[3] for r in rows)
    if lo + shift <= 0:
        shift = 0.0
    try:
        base = _predicates(rows, case["length"])
        scaled = _predicates([[r[0], r[1] * f, r[2] * f, r[3] * f, r[4] * f, r[5]] for r in rows], case["length"])
        shifted = _predicates([[r[0], r[1] + shift, r[2] + shift, r[3] + shift, r[4] + shift, r[5]] for r in rows], case["length"])
    except Exception as exc:
        return [raises(exc, "invariance")], True
    for what, other in (("scaled by 2^%d" % case["k"], scaled), ("shifted by %s" % shift, shifted)):
        for i, (a, b) in enumerate(zip(base, other)):
            if a != b:
                k = next(j for j, (x, y) in enumerate(zip(a, b)) if x != y)
                return [Violation("predicate-not-invariant", NAMES[k] + (":scale" if "scaled" in what else ":shift"), f"candle {i}: {NAMES[k]} = {a[k]!r} but {b[k]!r} when all prices are {what}", NAMES[k])], True
    return [], True


def run_case(case) -> Result:
    kind = case["kind"]
    run = {"movement": _run_movement, "geometry": _run_geometry, "witness": _run_witness, "invariance": _run_invariance}[kind]
    viol, nontrivial = run(case)
    labels = [kind]
    if kind == "witness":
        labels.append("witness" if case["break"] is None else "counter_witness")
        if not nontrivial:
            labels.append("witness_construction_rejected")
    return Result(viol, nontrivial, labels)


def shards(tier):
    n = 800 if tier == "quick" else 40000
    out = [Shard("mv:" + f, (lambda f=f: movement_cases(f)), n, subject=f) for f in MOVES]
    out.append(Shard("geometry", lambda: geometry_cases(), n * 2, subject="Candle"))
    out += [Shard("witness:" + p, (lambda p=p: witness_cases(p)), n * 2, subject=p) for p in PATS]
    out += [Shard(f"invariance-{i}", lambda: invariance_cases(), n, subject="invariance", cost=3) for i in range(3)]
    return out

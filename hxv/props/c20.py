"""C20 - all ways of asking for a reading give the same answer."""
from __future__ import annotations

from hypothesis import strategies as st

from hxv.gen import configs as gc
from hxv.gen import streams as gs
from hxv.lib import Result, Violation, build_indicator, mk_candles, raises, same, split_chunks
from hxv.runner import Shard

PROP = "C20"
RULE = (
    "case = Hexital with 1..4 members that legitimately read 0 / False / dicts (Counter, STDEVTHRES, pattern and movement "
    "wrappers, OBV on small volumes, MACD, Supertrend, highestbar) plus plain ones, each on the base or an extra timeframe, fed "
    "by generated appends; for every member, every plain and dotted name and EVERY in-range index i and its negative twin: "
    "Indicator.reading / as_list / read_candle / direct candle inspection and Hexital.reading / reading_as_list agree; "
    "prev_reading == reading at the candle before the latest; has_reading == (latest reading is not None) on both classes; "
    "reading_count == number of trailing candles with a reading; non-trivial = some compared reading is 0, False, a dict or "
    "lives on a non-default timeframe"
)
FLOORS = {"falsy_latest": (0.3, None), "extra_timeframe": (0.4, None)}
POOL = ("Counter", "StandardDeviationThreshold", "OBV", "MACD", "Supertrend", "EMA", "fn:rising", "fn:doji", "fn:highestbar", "fn:crossover", "AROON", "fn:positive")


@st.composite
def cases(draw, max_n=40):
    k = draw(st.integers(1, 4))
    members, names = [], set()
    for _ in range(k):
        subj = draw(st.sampled_from(POOL))
        cfg = draw(gc.config(subj))
        for key in list(cfg["kw"]):
            if "period" in key and isinstance(cfg["kw"][key], int):
                cfg["kw"][key] = min(cfg["kw"][key], draw(st.integers(2, 6)))
        if subj == "MACD" and cfg["kw"]["fast_period"] >= cfg["kw"]["slow_period"]:
            cfg["kw"]["slow_period"] = cfg["kw"]["fast_period"] + 1
        cfg["kw"].pop("round_value", None)
        if draw(st.integers(0, 5)) == 0:  # user-chosen name parts with dots (documented to be sanitised: '.' addresses a field)
            if draw(st.booleans()):
                cfg["kw"]["name_suffix"] = draw(st.sampled_from(("v1.5", "a.b", "x")))
            else:
                cfg["kw"]["fullname_override"] = draw(st.sampled_from(("my.ind", "fast.1", "plain"))) + str(len(members))
        tf = draw(st.sampled_from((None, None, "T5", "T10", "T1")))
        key = (subj, tf)
        if key in names:
            continue
        names.add(key)
        members.append({"cfg": cfg, "tf": tf})
    n = draw(st.integers(0, max_n))
    rows = draw(gs.price_rows(n, base=draw(st.sampled_from((20, 100)))))
    step = draw(st.sampled_from((60, 60, 150, 300)))
    start = gs.BASE_DAY + draw(st.sampled_from((0, 60, 90)))
    fill = draw(st.integers(0, 2)) == 0
    t, stream = start, []
    for r in rows:
        stream.append([t] + r)
        # with fill, gaps of a few buckets make a filled timeframe hold MORE candles than the base list
        t += step if not fill else draw(st.sampled_from((step, step, step, 4 * step, 9 * step)))
    preload = min(n, draw(st.sampled_from((0, 0, 1, n // 2, n))))
    lifespan = draw(st.sampled_from((None, None, None, 5 * step, 12 * step)))
    # maintenance between the appends and the questions: the accessors must agree in every reachable state
    maint = draw(st.sampled_from((None, None, "purge+calculate_index+calculate", "recalculate", "calculate_index")))
    # the Hexital itself may collapse (its default candles are then a timeframe too, possibly the same one a member names)
    hx_tf = draw(st.sampled_from((None, None, None, "T5", "T1", "T10")))
    # every member registered through add_indicator on a Hexital built without an indicator list, next to a second
    # ("decoy") Hexital built the same way for another instrument with the same indicator names
    late_all = draw(st.integers(0, 4)) == 0
    return {"late_all": late_all, "hx_tf": hx_tf, "members": members, "stream": stream, "fill": fill, "lifespan": lifespan, "maintenance": maint, "preload": preload, "chunks": draw(gs.chunking(n - preload))}


def run_case(case) -> Result:
    from hexital import Hexital
    from hexital.utils.candles import reading_by_candle

    rows = case["stream"]
    pre = min(case.get("preload", 0), len(rows))
    labels, viol = [], []
    try:
        inds = [build_indicator(m["cfg"], **({"timeframe": m["tf"]} if m["tf"] else {})) for m in case["members"]]
        if len({i.name for i in inds}) != len(inds):
            return Result([], False, ["name_clash"])
        from datetime import timedelta

        extra = {"candles_lifespan": timedelta(seconds=case["lifespan"])} if case.get("lifespan") else {}
        if case.get("hx_tf"):
            extra["timeframe"] = case["hx_tf"]
            labels.append("hexital_timeframe")
            if any(m["tf"] == case["hx_tf"] for m in case["members"]):
                labels.append("member_names_the_hexital_timeframe")
        if case.get("late_all"):
            labels.append("registered_late_next_to_a_decoy")
            hx = Hexital("c20", mk_candles(rows[:pre]), None, timeframe_fill=bool(case.get("fill")), **extra)
            hx.add_indicator(inds)
            decoy_rows = [[r[0]] + [x * 3 + 7 for x in r[1:5]] + [r[5]] for r in rows[: max(3, len(rows) // 2)]]
            decoy = Hexital("decoy", mk_candles(decoy_rows), None, timeframe_fill=bool(case.get("fill")), **extra)
            decoy.add_indicator([build_indicator(m["cfg"], **({"timeframe": m["tf"]} if m["tf"] else {})) for m in case["members"]])
            decoy.calculate()
        else:
            hx = Hexital("c20", mk_candles(rows[:pre]), inds, timeframe_fill=bool(case.get("fill")), **extra)
        hx.calculate()
        rest = rows[pre:]
        for a, b in split_chunks(len(rest), case.get("chunks", [])):
            hx.append(mk_candles(rest[a:b]))
            # the accessors are also used between appends (a stale cache would only show at the next comparison)
            for ind in inds:
                ind.as_list()
                ind.reading_count()
                hx.reading_as_list(ind.name)
                hx.reading(ind.name)
        maint = case.get("maintenance")
        if maint and inds and hx.candles():
            victim = inds[len(rows) % len(inds)]
            if maint == "purge+calculate_index+calculate" and victim.candles:
                hx.purge(victim.name)
                hx.calculate_index(victim.name, -1)
                hx.calculate()
            elif maint == "recalculate":
                hx.recalculate(victim.name)
            elif maint == "calculate_index" and victim.candles:
                hx.calculate_index(victim.name, -1)
            labels.append("after_maintenance")
    except Exception as exc:
        return Result([], False, ["raises"])  # totality / Hexital construction are C09 / C08
    nontrivial = False

    def bad(kind, site, text, subject):
        if not viol:
            viol.append(Violation(kind, site, text + f" [{subject}]", "accessors"))

    try:  # a name nobody registered: every Hexital accessor says so in its own way, consistently
        if hx.reading_as_list("no_such_indicator") != [] or hx.reading("no_such_indicator") is not None or hx.has_reading("no_such_indicator") is not False or hx.prev_reading("no_such_indicator") is not None:
            bad("accessors-disagree", "unknown-name", "an unregistered name yields a reading", "accessors")
    except Exception as exc:
        v = raises(exc, "accessors")
        bad(v.kind, v.site, "unregistered name: " + v.detail, "accessors")
    for m, ind in zip(case["members"], inds):
        subject = gc.subject_of(m["cfg"])
        cs = ind.candles
        n = len(cs)
        if m["tf"]:
            labels.append("extra_timeframe")
            if len(cs) > len(hx.candles()):
                labels.append("timeframe_longer_than_base")
        sample = next((c.indicators.get(ind.name) for c in reversed(cs) if isinstance(c.indicators.get(ind.name), dict)), None)
        names = [ind.name] + ([f"{ind.name}.{f}" for f in sample] if sample else [])
        try:
            other = ["close", "volume"] + sorted({k for c in cs for k in c.sub_indicators})[:4]
            for oname in other:
                want_o = [reading_by_candle(c, oname) for c in cs]
                if not same(ind.as_list(oname), want_o):
                    bad("accessors-disagree", "Indicator.as_list(other name)", f"{ind.name}.as_list({oname!r}) = {ind.as_list(oname)[-3:]} but the candles hold {want_o[-3:]}", subject)
                for i in (0, len(cs) - 1):
                    if cs and not same(ind.reading(oname, index=i), want_o[i]):
                        bad("accessors-disagree", "Indicator.reading(other name)", f"{ind.name}.reading({oname!r}, {i}) = {ind.reading(oname, index=i)!r} but the candle holds {want_o[i]!r}", subject)
            for name in names:
                plain = name == ind.name
                direct = [reading_by_candle(c, name) for c in cs]
                if "." in name:
                    main, f = name.split(".")
                    direct2 = [(c.indicators.get(main) or {}).get(f) if isinstance(c.indicators.get(main), dict) else c.indicators.get(main) for c in cs]
                else:
                    direct2 = [c.indicators.get(name) for c in cs]
                if not same(direct, direct2):
                    bad("lookup-differs-from-candle-dict", "reading_by_candle", f"{name}: {direct[-3:]} vs dict {direct2[-3:]}", subject)
                as_list = ind.as_list(name) if not plain else ind.as_list()
                hx_list = hx.reading_as_list(name)
                if not same(as_list, direct2):
                    bad("accessors-disagree", "Indicator.as_list", f"{name}: {as_list[-3:]} vs candles {direct2[-3:]}", subject)
                if not same(hx_list, direct2):
                    bad("accessors-disagree", "Hexital.reading_as_list", f"{name}: {hx_list[-3:]} vs candles {direct2[-3:]}", subject)
                for i in range(n):
                    want = direct2[i]
                    if want is not None and (want == 0 or isinstance(want, dict)) or m["tf"]:
                        nontrivial = True
                    got = {
                        "Indicator.reading(+i)": ind.reading(name, index=i),
                        "Indicator.reading(-i)": ind.reading(name, index=i - n),
                        "Indicator.read_candle": ind.read_candle(cs[i], name),
                        "Hexital.reading(+i)": hx.reading(name, index=i),
                        "Hexital.reading(-i)": hx.reading(name, index=i - n),
                    }
                    for how, g in got.items():
                        if not same(g, want):
                            bad("accessors-disagree", how.split("(")[0], f"{name} candle {i} of {n}: {how} = {g!r} but the candle holds {want!r}", subject)
                if n == 0:
                    # nothing has been appended yet: the accessors that answer at all say "no reading".
                    # (Indicator.reading() indexes the empty list and raises IndexError: there is no candle position to
                    # ask about, which is outside the statement's quantifier - observed, not judged.)
                    labels.append("empty_object")
                    for how, g in (("Hexital.reading()", hx.reading(name)), ("Indicator.prev_reading", ind.prev_reading(name)), ("Hexital.prev_reading", hx.prev_reading(name))):
                        if g is not None:
                            bad("accessors-disagree", how, f"{name}: {how} = {g!r} on an object without candles", subject)
                    if hx.has_reading(name) is not False or (plain and ind.has_reading is not False):
                        bad("has_reading-wrong", "has_reading", f"{name}: has_reading true without candles", subject)
                if n:
                    latest = direct2[-1]
                    if latest is not None and (latest == 0 or latest is False):
                        labels.append("falsy_latest")
                    if not same(ind.reading(name) if not plain else ind.reading(), latest):
                        bad("accessors-disagree", "Indicator.reading()", f"{name}: default {ind.reading(name)!r} vs latest {latest!r}", subject)
                    if not same(hx.reading(name), latest):
                        bad("accessors-disagree", "Hexital.reading()", f"{name}: default {hx.reading(name)!r} vs latest {latest!r}", subject)
                    before = direct2[-2] if n >= 2 else None
                    if not same(ind.prev_reading(name), before):
                        bad("accessors-disagree", "Indicator.prev_reading", f"{name}: {ind.prev_reading(name)!r} vs candle before latest {before!r}", subject)
                    # Hexital.prev_reading is reading(name, -2): only an in-range position is in the statement's
                    # quantifier (with a single candle the look-up falls through to other timeframes by design)
                    if n >= 2 and not same(hx.prev_reading(name), before):
                        bad("accessors-disagree", "Hexital.prev_reading", f"{name}: {hx.prev_reading(name)!r} vs candle before latest {before!r}", subject)
                    if hx.has_reading(name) is not (latest is not None):
                        bad("has_reading-wrong", "Hexital.has_reading", f"{name}: has_reading {hx.has_reading(name)!r} but latest reading is {latest!r}", subject)
                    if plain and ind.has_reading is not (latest is not None):
                        bad("has_reading-wrong", "Indicator.has_reading", f"{name}: has_reading {ind.has_reading!r} but latest reading is {latest!r}", subject)
                trailing = 0
                for v in reversed(direct2):
                    if v is None:
                        break
                    trailing += 1
                rc = ind.reading_count(name) if not plain else ind.reading_count()
                if rc != trailing:
                    bad("reading_count-wrong", "Indicator.reading_count", f"{name}: {rc} vs {trailing} trailing candles with a reading", subject)
        except Exception as exc:
            v = raises(exc, subject)
            bad(v.kind, v.site, v.detail, subject)
        if viol:
            break
    return Result(viol, nontrivial, sorted(set(labels)))


def shards(tier):
    n = 600 if tier == "quick" else 20000
    return [Shard(f"gen-{i}", lambda: cases(), n, subject="accessors") for i in range(14)] + [
        Shard(f"gen-long-{i}", lambda: cases(max_n=90), n // 3, subject="accessors", cost=2) for i in range(2)
    ]

"""Case shape shared by the 'twin' properties (C01, C02, C11, C12, C15):
one indicator configuration x timeframe/fill x stream x append schedule."""
from __future__ import annotations

from hypothesis import strategies as st

from hxv.gen import configs as gc
from hxv.gen import streams as gs
from hxv.lib import TZOFFS, apply_interlude, build_indicator, interlude, mgr_kwargs, mk_candles, split_chunks, tf_seconds
from hxv.ref import resample as rr


@st.composite
def twin_cases(draw, subject=None, max_n=60, tf_prob=2, with_fill=True, min_n=0, force_tf=False, stream_kw=None):
    cfg = draw(gc.config(subject))
    tf = None
    if force_tf or draw(st.integers(0, 3)) < tf_prob:
        tf = draw(gs.timeframe())
    fill = bool(tf) and with_fill and draw(st.booleans())
    tfs = tf_seconds(tf) if tf else None
    with_ts = True if tf else draw(st.sampled_from((True, True, False)))
    rows = draw(gs.streams(min_n, max_n, tf_s=tfs, with_ts=with_ts, **(stream_kw or {})))
    n = len(rows)
    preload = min(n, draw(st.sampled_from((0, 0, 0, 1, 2, n // 2, n))))
    return {
        "cfg": cfg,
        "tf": tf,
        "fill": fill,
        "stream": rows,
        "preload": preload,
        "preload_calc": draw(st.booleans()),
        "chunks": draw(gs.chunking(n - preload)),
        # timezone-aware timestamps with a fixed offset (the buckets are those of the timestamps' own wall clock)
        "tzoff": draw(st.sampled_from(TZOFFS)) if with_ts else None,
        # a maintenance operation between two appends (it must be invisible afterwards: C14)
        "interlude": interlude(lambda a, b: draw(st.integers(a, b)), lambda xs: draw(st.sampled_from(xs))) if draw(st.integers(0, 3)) == 0 else None,
    }


def schedule(case):
    """-> (preload rows, list of chunk row-lists)"""
    rows = case["stream"]
    pre = max(0, min(case.get("preload", 0), len(rows)))
    rest = rows[pre:]
    return rows[:pre], [rest[a:b] for a, b in split_chunks(len(rest), case.get("chunks", []))]


def run_incremental(case, after_append=None, **extra):
    pre, chunks = schedule(case)
    tz = case.get("tzoff")
    ind = build_indicator(case["cfg"], candles=mk_candles(pre, tz), **mgr_kwargs(case), **extra)
    if case.get("preload_calc"):
        ind.calculate()
        if after_append:
            after_append(ind)
    inter = case.get("interlude")
    for j, ch in enumerate(chunks):
        if inter and j == inter["after"] % len(chunks):
            apply_interlude(ind, inter)
        ind.append(mk_candles(ch, tz))
        if after_append:
            after_append(ind)
    if not chunks:
        ind.calculate()
        if after_append:
            after_append(ind)
    return ind, len(chunks)


def run_batch(case, rows=None, **extra):
    ind = build_indicator(case["cfg"], candles=mk_candles(case["stream"] if rows is None else rows, case.get("tzoff")), **mgr_kwargs(case), **extra)
    ind.calculate()
    return ind


def boundary_inside_bucket(case) -> bool:
    """does an append boundary split a timeframe bucket?"""
    if not case.get("tf"):
        return False
    rows, tf = case["stream"], tf_seconds(case["tf"])
    pre, chunks = schedule(case)
    cuts, pos = [], len(pre)
    for ch in chunks:
        cuts.append(pos)
        pos += len(ch)
    return any(0 < k < len(rows) and rr.label(rows[k - 1][0], tf) == rr.label(rows[k][0], tf) for k in cuts)


def has_reading(ind) -> bool:
    return any(c.indicators.get(ind.name) not in (None, {}) and _any_value(c.indicators.get(ind.name)) for c in ind.candles)


def _any_value(r) -> bool:
    if isinstance(r, dict):
        return any(v is not None for v in r.values())
    return r is not None


SMALL = {
    "ADX": {"period": 2},
    "AROON": {"period": 2},
    "ATR": {"period": 2},
    "BBANDS": {"period": 3},
    "Counter": {"input_value": "positive"},
    "Donchian": {"period": 3},
    "EMA": {"period": 2},
    "HighestLowest": {"period": 3},
    "HighLowAverage": {},
    "HMA": {"period": 4},
    "KC": {"period": 2},
    "MACD": {"fast_period": 2, "slow_period": 3, "signal_period": 2},
    "OBV": {},
    "RMA": {"period": 2},
    "ROC": {"period": 2},
    "RSI": {"period": 2},
    "SMA": {"period": 3},
    "StandardDeviation": {"period": 3},
    "StandardDeviationThreshold": {"period": 3},
    "STOCH": {"period": 2, "slow_period": 2, "smoothing_k": 2},
    "Supertrend": {"period": 2},
    "TR": {},
    "TSI": {"period": 2},
    "VWAP": {},
    "VWMA": {"period": 3},
    "WMA": {"period": 3},
}
SMALL_FN = {
    "cross": {"indicator_one": "close", "indicator_two": "open", "length": 2},
    "crossover": {"indicator_one": "close", "indicator_two": "open", "length": 2},
    "crossunder": {"indicator_one": "close", "indicator_two": "open", "length": 2},
    "falling": {"indicator": "close", "length": 2},
    "highest": {"indicator": "high", "length": 3},
    "highestbar": {"indicator": "high", "length": 3},
    "lowest": {"indicator": "low", "length": 3},
    "lowestbar": {"indicator": "low", "length": 3},
    "mean_falling": {"indicator": "close", "length": 3},
    "mean_rising": {"indicator": "close", "length": 3},
    "negative": {},
    "positive": {},
    "rising": {"indicator": "close", "length": 2},
    "value_range": {"indicator": "close", "length": 3},
    "doji": {},
    "dojistar": {"lookback": 2},
    "hammer": {},
    "inv_hammer": {"lookback": 2},
}


def small_cfg(subject):
    if subject.startswith("fn:"):
        return {"analysis": subject[3:], "kw": dict(SMALL_FN[subject[3:]])}
    return {"cls": subject, "kw": dict(SMALL[subject])}


def fixed_streams(n=8):
    """a handful of hand-made short streams: trending, flat stretch, zig-zag, off-boundary, gap"""
    b = gs.BASE_DAY
    out = []
    closes = [
        [10, 11, 12, 13, 14, 15, 16, 17, 18, 19, 20, 21, 22, 23],
        [10, 10, 10, 12, 12, 9, 9, 9, 9, 11, 11, 11, 14, 14],
        [10, 13, 9, 14, 8, 15, 7, 16, 6, 17, 5, 18, 4, 19],
        [20, 19, 18, 17, 16, 15, 14, 13, 12, 11, 10, 9, 8, 7],
        [10, 11, 11, 10, 12, 12, 13, 11, 14, 14, 9, 15, 15, 16],
    ]
    offs = [
        [60 * i for i in range(14)],
        [30 + 60 * i for i in range(14)],
        [0, 60, 120, 600, 660, 661, 720, 1500, 1560, 1620, 1621, 1680, 3000, 3060],
        [0, 0, 60, 60, 120, 300, 300, 301, 599, 600, 601, 900, 901, 902],
        [299, 300, 301, 599, 600, 601, 899, 900, 901, 1199, 1200, 1201, 1499, 1500],
    ]
    for cl, of in zip(closes, offs):
        rows, pc = [], cl[0]
        for i in range(n):
            o, c = pc, cl[i]
            rows.append([b + of[i], float(o), float(max(o, c) + (i % 3)), float(max(1, min(o, c) - (i % 2))), float(c), (i * 3) % 5])
            pc = c
        out.append(rows)
    return out


def compositions(n):
    for mask in range(2 ** (n - 1)):
        chunks, run = [], 1
        for bit in range(n - 1):
            if mask >> bit & 1:
                chunks.append(run)
                run = 1
            else:
                run += 1
        chunks.append(run)
        yield chunks

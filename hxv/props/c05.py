"""C05 - volatility, range, channel and utility indicators match their definitions."""
from __future__ import annotations

import math

from hypothesis import strategies as st

from hxv.gen import configs as gc
from hxv.gen import streams as gs
from hxv.lib import Result, Violation
from hxv.props import numeric as nm
from hxv.ref import bounded as bd
from hxv.ref import indicators as ri
from hxv.ref.bounded import ANY, INF
from hxv.runner import Shard

PROP = "C05"
RULE = (
    "case = (TR/ATR/STDEV/BBANDS/KC/Donchian/HighestLowest/HLA/Supertrend/STDEVTHRES/Counter with generated periods, "
    "multipliers, input fields and round_value; regime-machine stream with flat runs, gaps, spikes, zero volume); oracle = "
    "independent textbook definitions from the raw candles in bounded (value +- rounding error) arithmetic, per output field: "
    "values agree within the bound, no reading before the definition is computable, no missing reading once it is; discrete "
    "decisions (Supertrend flip/ratchet, threshold flag) decided on bounded values, ambiguous ones skipped / comparison "
    "truncated; non-trivial = stream longer than warm-up+5 containing a non-walk regime candle after warm-up"
)
FLOORS = {"has_flat_run": (0.2, None)}
CLASSES = ("TR", "ATR", "StandardDeviation", "BBANDS", "KC", "Donchian", "HighestLowest", "HighLowAverage", "Supertrend", "StandardDeviationThreshold", "Counter")


@st.composite
def cases(draw, cls, max_n=120):
    if cls == "Counter" and draw(st.booleans()):
        n = draw(st.integers(0, max_n))
        rows = draw(gs.streams(n, n, with_ts=False))
        kind = draw(st.sampled_from(("bool", "int")))
        vals = [draw(st.sampled_from((True, False, None) if kind == "bool" else (0, 1, 1, 2, None))) for _ in range(n)]
        return {"cfg": {"cls": "Counter", "kw": {"input_value": "X", "count_value": draw(st.sampled_from((True, False, 0, 1)))}}, "stream": rows, "values": vals}
    cfg = draw(gc.config(cls))
    if draw(st.integers(0, 9)) == 0:
        cfg["kw"]["name_suffix"] = draw(st.sampled_from(("b", "v1.5")))  # a legal suffix; dots are sanitised
    w = gc.warmup(cfg)
    n = draw(st.one_of(st.integers(0, w + 3), st.integers(w, max_n)))
    if draw(st.integers(0, 3)) == 0:
        return _scheduled(draw, cfg, n)
    case = {"cfg": cfg, "stream": draw(gs.streams(n, n, with_ts=False))}
    if cls in ("StandardDeviation", "BBANDS", "StandardDeviationThreshold") and draw(st.integers(0, 2)) == 0:
        # the input is another series that starts late (an indicator with a warm-up of its own): the first reading
        # belongs where `period` inputs exist, not where `period` candles exist
        late = min(n, draw(st.sampled_from((1, 2, 5, 9, 14))))
        v, vals = draw(st.sampled_from((0, 50, 1000))), []
        for _ in range(n - late):
            v += draw(st.integers(-3, 3))
            vals.append(round(v * 0.25, 2))
        cfg["kw"]["input_value"] = "X"
        case["values"] = [None] * late + vals
    if cls in nm.RETUNE_OK and draw(st.integers(0, 3)) == 0:
        case["retune_from"] = draw(st.integers(2, 20))  # first built and calculated with this period, then re-tuned
    if "input_value" in cfg["kw"] and draw(st.integers(0, 3)) == 0:
        case["sibling_input"] = draw(st.sampled_from(("high", "low", "open")))
    elif "values" not in case and draw(st.integers(0, 3)) == 0:
        case["enc"] = draw(st.sampled_from(("dict", "list_first", "list_last", "dict_caps")))
    if draw(st.integers(0, 3)) == 0:
        from hxv.lib import interlude

        case["interlude"] = dict(interlude(lambda a, b: draw(st.integers(a, b)), lambda xs: draw(st.sampled_from(xs))), at=draw(st.integers(1, 80)))
    return case


@st.composite
def supertrend_tie_cases(draw):
    """dyadic grid + period 2/4: ATR and bands are exact at 4 decimals, so a close that only touches the
    previous band (no break) is a decidable tie"""
    kw = {"period": draw(st.sampled_from((2, 2, 4))), "multiplier": draw(st.sampled_from((1.0, 1.0, 2.0, 1.5, 3.0)))}
    n = draw(st.integers(8, 80))
    grid = draw(st.sampled_from(((1.0, 0), (0.25, 2), (0.5, 1))))
    rows = draw(gs.price_rows(n, regimes=("walk", "up", "down", "flatbody", "flat"), grid=grid, base=draw(st.sampled_from((20, 100))), zero_volume_runs=False))
    return {"cfg": {"cls": "Supertrend", "kw": kw}, "stream": [[None] + r for r in rows]}


@st.composite
def micro_price_cases(draw, cls):
    """a micro-priced instrument read with 6 or 8 decimals: helper-free dict readings must keep that precision"""
    kw = {"period": draw(st.integers(2, 8)), "round_value": draw(st.sampled_from((6, 8, 8)))}
    n = draw(st.integers(kw["period"] + 3, 60))
    if cls in ("TR", "HighLowAverage"):
        kw.pop("period")
    rows = draw(gs.price_rows(n, grid=(0.000001, 6), base=draw(st.sampled_from((40, 400, 4000))), zero_volume_runs=False))
    return {"cfg": {"cls": cls, "kw": kw}, "stream": [[None] + r for r in rows]}


@st.composite
def threshold_micro_cases(draw):
    """a 5-decimal quote that sits still and then ticks: the window sigma is below half a unit of the 4th decimal
    (it is stored as 0.0) while the tick is clearly more than multiplier * (0.0 + rounding error) - a decidable True"""
    p = draw(st.integers(3, 40))
    mult = draw(st.sampled_from((0.5, 1.0, 1.0, 2.0)))
    # one tick of k units (1e-5) in an otherwise still window of p: sigma = k*sqrt(q(1-q)), q = 1/p
    hi = int(5.0 / math.sqrt((1.0 / p) * (1 - 1.0 / p))) - 1
    lo = int(5.2 * mult) + 1
    px = draw(st.sampled_from((108537, 5001, 99999, 1234567)))
    rows, n = [], draw(st.integers(p + 2, min(150, 4 * p + 20)))
    while len(rows) < n:
        still = draw(st.one_of(st.integers(p, p + 6), st.integers(p, p + 6), st.integers(1, p)))
        for _ in range(still):
            c = round(px * 1e-5, 5)
            rows.append([None, c, c, c, c, draw(st.integers(0, 9))])
        k = draw(st.integers(lo, hi)) if lo <= hi and draw(st.integers(0, 4)) else draw(st.sampled_from((1, 3, 12, 30, 60)))
        px += k * draw(st.sampled_from((-1, 1)))
    rows = rows[:n]
    return {"cfg": {"cls": "StandardDeviationThreshold", "kw": {"period": p, "multiplier": mult}}, "stream": rows}


def _fields(ind, names):
    return {f: nm.series(ind, f) for f in names}


def _scheduled(draw, cfg, n):
    """the same definition must hold on the collapsed candles of a timeframe fed by any append schedule"""
    from hxv.lib import tf_seconds

    tf = draw(st.sampled_from(("T5", "T5", "T1", "H1")))
    n = min(n * 2, 240)
    rows = draw(gs.streams(n, n, tf_s=tf_seconds(tf)))
    return {"cfg": cfg, "stream": rows, "tf": tf, "fill": draw(st.booleans()), "preload": 0, "chunks": draw(gs.chunking(n))}


def run_case(case) -> Result:
    cfg, rows = case["cfg"], case["stream"]
    cls, kw = cfg["cls"], cfg.get("kw", {})
    r = kw.get("round_value", 4)
    labels, stats, viol = [], {}, []
    if not rows:
        return Result([], False, ["empty"])
    flat = [row[1] == row[2] == row[3] == row[4] for row in rows]
    if any(all(flat[i : i + 3]) for i in range(max(0, len(flat) - 2))):
        labels.append("has_flat_run")
    prep = None
    if "values" in case:
        vals = case["values"]

        def prep(candles):
            for c, v in zip(candles, vals):
                if v is not None:
                    c.indicators["X"] = v

    if case.get("tf"):
        from hxv.lib import raises, snap
        from hxv.props import twin

        labels.append("scheduled_timeframe")
        try:
            ind, _ = twin.run_incremental(case)
            v = None
            rows = [r[:6] for r in snap(ind.candles, readings=False)]  # the library's own collapsed candles (C03 judges those)
        except Exception as exc:
            ind, v = None, raises(exc)
    else:
        ind, v = nm.run_batch(cfg, rows, prep, inter=case.get("interlude"), sibling_input=case.get("sibling_input"), enc=None if case.get("interlude") else case.get("enc"))
        if case.get("interlude"):
            labels.append("maintenance_interlude")
    if v is not None:
        v.subject = cls
        return Result([v], False, labels)
    col = nm.lift_rows(rows)
    h, l, c = col["high"], col["low"], col["close"]
    x = col[kw.get("input_value", "close")] if kw.get("input_value", "close") in col else None
    if kw.get("input_value") == "X" and cls != "Counter":
        x = bd.lift(list(case["values"]) + [None] * (len(rows) - len(case["values"])))
        labels.append("late_starting_input")
    p = kw.get("period")

    def J(field, impl, ref, upto=None):
        if not viol:
            vv = nm.judge_series(field, impl, ref, stats, upto)
            if vv:
                viol.append(vv)

    if cls == "TR":
        J("TR", nm.series(ind), ri.tr(h, l, c, r))
    elif cls == "ATR":
        J("ATR", nm.series(ind), ri.atr(h, l, c, p, r))
    elif cls == "StandardDeviation":
        J("STDEV", nm.series(ind), ri.stdev(x, p, r))
    elif cls == "BBANDS":
        ref = ri.bbands(x, p, r)
        for f in ("BBL", "BBM", "BBU"):
            J(f, nm.series(ind, f), ref[f])
    elif cls == "KC":
        ref = ri.kc(h, l, c, x, p, kw.get("multiplier", 2.0), r)
        for f in ("lower", "band", "upper"):
            J(f, nm.series(ind, f), ref[f])
    elif cls == "Donchian":
        ref = ri.donchian(h, l, p, r)
        for f in ("DCL", "DCM", "DCU"):
            J(f, nm.series(ind, f), ref[f])
    elif cls == "HighLowAverage":
        J("HLA", nm.series(ind), ri.hla(h, l, r))
    elif cls == "HighestLowest":
        got = _fields(ind, ("high", "low"))
        verdicts = []
        for extra in (True, False):
            ref = ri.highest_lowest(h, l, p, r, include_extra=extra)
            st_ = {}
            verdicts.append(nm.judge_series("high", got["high"], ref["high"], st_) or nm.judge_series("low", got["low"], ref["low"], st_))
        if all(verdicts):
            viol.append(verdicts[0])
        stats["points_compared"] = stats.get("points_compared", 0) + 2 * len(rows)
    elif cls == "Supertrend":
        ref, cut = ri.supertrend(h, l, c, p, kw.get("multiplier", 3.0), r)
        if cut is not None:
            stats["ambiguous_truncated"] = 1
        got = _fields(ind, ("trend", "direction", "long", "short"))
        flips = 0
        for i, row in enumerate(ref):
            if viol:
                break
            t, d, lo, sh = got["trend"][i], got["direction"][i], got["long"][i], got["short"][i]
            if row is None:
                if t is not None or lo is not None or sh is not None:
                    viol.append(Violation("reading-before-definition-computable", "trend", f"index {i}: trend {t!r}"))
                continue
            rd, rt = row
            if i and ref[i - 1] is not None and ref[i - 1][0] != rd:
                flips += 1
            if i and ref[i - 1] is not None and ref[i - 1][1].e == 0.0 and rows[i][4] == ref[i - 1][1].v:
                stats["supertrend_close_touches_previous_trend_band"] = stats.get("supertrend_close_touches_previous_trend_band", 0) + 1
            if t is None:
                viol.append(Violation("reading-missing-where-defined", "trend", f"index {i}: no trend, definition {rt!r}"))
            elif d != rd:
                viol.append(Violation("direction-differs", "direction", f"index {i}: direction {d} vs {rd}"))
            elif not bd.ok(t, rt):
                viol.append(Violation("value-outside-rounding-bound", "trend", f"index {i}: trend {t!r} vs {rt!r}"))
            elif (lo if rd == 1 else sh) != t or (sh if rd == 1 else lo) is not None:
                viol.append(Violation("long-short-inconsistent", "long/short", f"index {i}: direction {rd} trend {t} long {lo} short {sh}"))
            else:
                stats["points_compared"] = stats.get("points_compared", 0) + 1
        if flips:
            labels.append("supertrend_flip")
    elif cls == "StandardDeviationThreshold":
        ref = ri.stdev_threshold(x, p, kw.get("multiplier", 2.0))
        got = nm.series(ind)
        for i, (g, w_) in enumerate(zip(got, ref)):
            if w_ is None:
                stats["ambiguous_flags"] = stats.get("ambiguous_flags", 0) + 1
                if not isinstance(g, bool):
                    viol.append(Violation("flag-not-bool", "flag", f"index {i}: {g!r}"))
                    break
                continue
            if g is not w_:
                viol.append(Violation("threshold-flag-differs", "flag", f"index {i}: flag {g!r}, definition {w_!r} (|dx| vs multiplier*sigma)"))
                break
            stats["points_compared"] = stats.get("points_compared", 0) + 1
        if any(w_ is True for w_ in ref):
            labels.append("flag_true_once")
        sg = ri.stdev(x, p, 4)
        if any(w_ is True and sg[i] is not None and not ri._bad(sg[i]) and abs(sg[i].v) < 0.00005 for i, w_ in enumerate(ref)):
            labels.append("flag_true_while_sigma_stored_as_zero")
    elif cls == "Counter":
        src = kw["input_value"]
        if src == "X":
            xs = case["values"]
        else:
            xs = [(row[1] < row[4]) if src == "positive" else (row[1] > row[4]) for row in rows]
        vv = nm.judge_exact("count", nm.series(ind), ri.counter(xs, kw.get("count_value", True)))
        if vv:
            viol.append(vv)
        stats["points_compared"] = stats.get("points_compared", 0) + len(rows)
    for vv in viol:
        vv.subject = cls
    w = gc.warmup(cfg)
    regimes_after = any(flat[w:]) or len(rows) > w + 5
    if not viol and case.get("retune_from") and not case.get("tf") and cls in nm.RETUNE_OK and "period" in kw:
        labels.append("retuned")
        vv = nm.retune_violation(cfg, rows, prep, case["retune_from"], ind)
        if vv:
            vv.subject = cls
            viol.append(vv)
    return Result(viol, len(rows) >= w + 5 and regimes_after, labels, stats)


def shards(tier):
    n = 800 if tier == "quick" else 20000
    out = []
    for c in CLASSES:
        cost = 3 if c in ("Supertrend", "KC", "BBANDS") else 1
        out.append(Shard(c, (lambda c=c: cases(c)), n, subject=c, cost=cost))
    out.append(Shard("Supertrend-ties", lambda: supertrend_tie_cases(), n, subject="Supertrend", cost=2))
    out.append(Shard("StandardDeviationThreshold-microticks", lambda: threshold_micro_cases(), n // 2, subject="StandardDeviationThreshold"))
    for c in ("Donchian", "HighestLowest", "HighLowAverage", "TR"):
        out.append(Shard(c + "-micro", (lambda c=c: micro_price_cases(c)), n // 2, subject=c))
    return out

"""C10 - outputs satisfy their structural invariants on every input."""
from __future__ import annotations

from hxv.gen import configs as gc
from hxv.lib import Result, Violation, is_num
from hxv.props import twin
from hxv.runner import Shard

PROP = "C10"
RULE = (
    "case = C01's case shape (indicator class with generated parameters incl. round_value 0..8, timeframe none/collapsing, "
    "fill, regime stream, append schedule); oracle = the named relations of the statement evaluated on the final candles: "
    "ranges (RSI, STOCH fields, Aroon up/down, ADX in [0,100]; TSI in [-100,100]; DI >= 0), TR >= high-low >= 0, ATR >= 0, "
    "sigma >= 0, lower <= middle <= upper and Donchian enclosing the candle, osc = up - down, mid = mean, hist = macd - signal, "
    "Supertrend direction/long/short/trend consistency, averages within the range of their inputs, |delta OBV| in {0, volume}, "
    "Counter grows by one or resets, every numeric reading rounded to round_value; slack = the roundings of the fields "
    "involved (computed, stated per relation); non-trivial = >= 5 non-None readings"
)
CLASSES = gc.CLASSES


def _dec(r):
    """one unit of the last stored decimal, with float fuzz: a relation between fields that are each rounded
    half-to-even can be off by exactly one unit (7.25 -> 7.2, 8.25 -> 8.2, 7.75 -> 7.8), and 7.8 - 7.7 is
    0.10000000000000053 in binary"""
    return 10.0**-r * (1 + 1e-9) + 1e-12


def _rounded(x, r):
    return not isinstance(x, float) or round(x, r) == x


def run_case(case) -> Result:
    cfg = case["cfg"]
    cls, kw = cfg["cls"], cfg.get("kw", {})
    r = kw.get("round_value", 4)
    d = _dec(r)
    labels = ["has_tf"] if case.get("tf") else []
    try:
        ind, _ = twin.run_incremental(case)
    except Exception:
        return Result([], False, labels + ["raises"])  # totality is C09
    name = ind.name
    cs = ind.candles
    out = [c.indicators.get(name) for c in cs]
    viol = []

    def bad(kind, field, i, text):
        if not viol:
            viol.append(Violation(kind, field, f"candle {i}: {text}", cls))

    def rng(field, i, x, lo, hi, slack):
        if x is not None and not (lo - slack <= x <= hi + slack):
            bad("out-of-range", field, i, f"{field}={x!r} not in [{lo},{hi}] (slack {slack:.3g})")

    n_read = 0
    p = kw.get("period", 14)
    src = kw.get("input_value", "close")
    xs = [getattr(c, src, None) if src in ("open", "high", "low", "close", "volume") else None for c in cs]
    for i, (c, v) in enumerate(zip(cs, out)):
        if viol:
            break
        fields = v if isinstance(v, dict) else {"": v}
        if any(x is not None for x in fields.values()):
            n_read += 1
        for f, x in fields.items():
            if x is not None and not isinstance(x, (bool, int, float)):
                bad("reading-not-a-real-number", f or "reading", i, f"{x!r} ({type(x).__name__})")
                break
            if is_num(x) and not _rounded(x, r):
                bad("not-rounded-to-round_value", f or "reading", i, f"{x!r} has more than {r} decimals")
        if viol:
            break
        if v is None:
            continue
        if cls == "RSI":
            rng("RSI", i, v, 0, 100, d)
        elif cls == "STOCH":
            rng("stoch", i, v.get("stoch"), 0, 100, d)
            for f in ("k", "d"):  # running SMAs: one rounding of drift per step
                rng(f, i, v.get(f), 0, 100, d + (i + 1) * 1e-4)
        elif cls == "AROON":
            u, dn, o = v.get("AROONU"), v.get("AROOND"), v.get("AROONOSC")
            rng("AROONU", i, u, 0, 100, d)
            rng("AROOND", i, dn, 0, 100, d)
            if None not in (u, dn, o) and abs(o - (u - dn)) > 2 * d:
                bad("relation-broken", "AROONOSC=up-down", i, f"osc {o} up {u} down {dn}")
        elif cls == "ADX":
            ps = kw.get("period_signal") or p
            rng("ADX", i, v.get("ADX"), 0, 100, d)
            for f in ("DM_Plus", "DM_Neg"):
                if v.get(f) is not None and v[f] < -d:
                    bad("out-of-range", f, i, f"{f}={v[f]!r} < 0")
        elif cls == "TSI":
            # numerator and denominator go through the same smoothing and the same rounding, and rounding is
            # monotone and symmetric, so |double-smoothed momentum| <= double-smoothed |momentum| holds exactly
            # at every stage: the only slack is the rounding of the reading itself
            rng("TSI", i, v, -100, 100, d)
        elif cls == "TR":
            if v < (c.high - c.low) - d or v < -d:
                bad("relation-broken", "TR>=high-low>=0", i, f"TR {v} high-low {c.high - c.low}")
        elif cls == "ATR":
            if v < -d:
                bad("out-of-range", "ATR>=0", i, f"{v}")
        elif cls == "StandardDeviation":
            if v < 0:
                bad("out-of-range", "sigma>=0", i, f"{v}")
        elif cls in ("BBANDS", "KC", "Donchian"):
            lo, mid, up = {"BBANDS": ("BBL", "BBM", "BBU"), "KC": ("lower", "band", "upper"), "Donchian": ("DCL", "DCM", "DCU")}[cls]
            a, b, u = v.get(lo), v.get(mid), v.get(up)
            if None not in (a, b, u):
                if not (a <= b + d and b <= u + d):
                    bad("relation-broken", "lower<=middle<=upper", i, f"{a} {b} {u}")
                if cls == "Donchian":
                    if abs(b - (a + u) / 2) > d:
                        bad("relation-broken", "DCM=mean(DCL,DCU)", i, f"{a} {b} {u}")
                    if u < c.high - d or a > c.low + d:
                        bad("relation-broken", "donchian-encloses-candle", i, f"[{a},{u}] vs low {c.low} high {c.high}")
            elif not (a is None and b is None and u is None):
                bad("relation-broken", "bands-partially-set", i, f"{v}")
        elif cls == "MACD":
            m, s, h = v.get("MACD"), v.get("signal"), v.get("histogram")
            if None not in (m, s, h) and abs(h - (m - s)) > 2 * d:
                bad("relation-broken", "histogram=MACD-signal", i, f"{m} {s} {h}")
            if m is not None and s is not None and h is None:
                bad("relation-broken", "histogram=MACD-signal", i, f"MACD {m} and signal {s} exist but the histogram is missing")
        elif cls == "Supertrend":
            t, dr, lg, sh = v.get("trend"), v.get("direction"), v.get("long"), v.get("short")
            if dr not in (1, -1):
                bad("relation-broken", "direction in {1,-1}", i, f"{dr!r}")
            elif t is not None:
                if (lg is None) == (sh is None):
                    bad("relation-broken", "exactly-one-of-long-short", i, f"{v}")
                elif (lg if dr == 1 else sh) != t:
                    bad("relation-broken", "long/short=trend", i, f"{v}")
            elif lg is not None or sh is not None:
                bad("relation-broken", "long/short-without-trend", i, f"{v}")
        elif cls in ("SMA", "EMA", "RMA", "WMA", "VWMA"):
            w = [x for x in (xs[: i + 1] if cls in ("EMA", "RMA") else xs[max(0, i - p + 1) : i + 1]) if x is not None]
            if cls == "VWMA":
                w = [cc.close for cc in cs[max(0, i - p + 1) : i + 1]]
            if w:
                slack = d + (i + 1) * 0.5 * d + 1e-9 * max(abs(min(w)), abs(max(w)))
                rng("average-within-inputs", i, v, min(w), max(w), slack)
        elif cls == "OBV":
            step = abs(v - out[i - 1]) if i > 0 and out[i - 1] is not None else 0
            # a lot size finer than round_value: the stored total moves by the volume up to one rounding
            fine = round(c.volume, r) != c.volume and abs(step - c.volume) <= 0.5 * 10.0**-r * 1.001 + 1e-9 * abs(v)
            near = min(abs(step), abs(step - c.volume)) <= 1e-9 * max(1.0, abs(v))  # 9.8 - 6.8 is not 3.0 in binary
            if step not in (0, c.volume) and not fine and not near:
                bad("relation-broken", "|dOBV| in {0,volume}", i, f"{out[i - 1]} -> {v}, volume {c.volume}")
        elif cls == "Counter":
            if isinstance(v, bool) or not isinstance(v, int) or v < 0:
                bad("relation-broken", "counter-nonnegative-int", i, f"{v!r}")
            elif i > 0 and isinstance(out[i - 1], int) and v not in (0, out[i - 1] + 1):
                bad("relation-broken", "counter-grows-by-one-or-resets", i, f"{out[i - 1]} -> {v}")
    return Result(viol, n_read >= 5, labels)


def shards(tier):
    n = 400 if tier == "quick" else 10000
    mx = 80 if tier == "quick" else 200
    out = []
    for s in CLASSES:
        cost = 3 if s in ("ADX", "TSI", "STOCH", "MACD", "HMA", "Supertrend") else 1
        out.append(Shard(s, (lambda s=s: twin.twin_cases(s, max_n=mx, tf_prob=1)), n, subject=s, cost=cost))
    return out

"""Runner: shards, seeding, budgets, known findings, replay files, evidence, exit codes.

Exit codes: 0 property held on everything explored (possibly with KNOWN-FINDING lines),
            1 at least one `VIOLATION property=<id> replay=<path>` line was printed,
            2 harness error (never a violation).
"""
from __future__ import annotations

import fnmatch
import importlib
import json
import multiprocessing as mp
import os
import sys
import time
import traceback
import zlib
from collections import Counter

from hxv import VERIF, HarnessError

TIERS = ("quick", "thorough")
WALL_CAP = {"quick": 240.0, "thorough": 2400.0}  # soft cap: shards stop generating, never a violation
SHRINK_CAP = {"quick": 15.0, "thorough": 90.0}
MAX_SIGS_PER_SHARD = 4


class CaseTimeout(Exception):
    """the library did not return within the per-case watchdog (an endless loop is reported like an exception)"""


_WATCH = {"limit": 6.0, "fired": False}


def _on_alarm(signum, frame):
    """raise only while library code is the running frame (an exception raised inside a gc or
    Hypothesis callback would be swallowed); otherwise look again shortly"""
    import signal

    from hxv import SRC

    if frame is not None and frame.f_code.co_filename.startswith(SRC):
        signal.setitimer(signal.ITIMER_PROF, _WATCH["limit"])  # the rest of the case gets a fresh budget
        _WATCH["fired"] = True
        raise CaseTimeout("no result within the per-case watchdog")
    signal.setitimer(signal.ITIMER_PROF, 0.02)


def _watched(mod, case, limit):
    import signal

    _WATCH["limit"] = limit
    signal.signal(signal.SIGPROF, _on_alarm)
    signal.setitimer(signal.ITIMER_PROF, limit)  # CPU seconds (user + system, so that a page-faulting runaway allocation counts) of this process: immune to machine load
    try:
        try:
            return mod.run_case(case)
        except (SystemExit, KeyboardInterrupt, GeneratorExit) as exc:
            # the library (not the harness: nothing here raises these) tried to end the interpreter or broke out of
            # the handlers every property has for ordinary exceptions: reported like any other exception it raises
            from hxv.lib import Result, raises

            return Result([raises(exc, "")], False, [])
    except (MemoryError, CaseTimeout) as exc:
        # a runaway loop/allocation inside the library that surfaced outside the property's own handlers
        import gc

        from hxv.lib import Result, Violation, exc_site

        signal.setitimer(signal.ITIMER_PROF, 0)
        site = exc_site(exc)
        del exc
        gc.collect()
        return Result([Violation("hangs-or-runs-away", "watchdog", f"runaway computation or allocation (last library frame {site})")], False, [])
    finally:
        signal.setitimer(signal.ITIMER_PROF, 0)


def guarded(mod, case):
    """run one case under a CPU-time watchdog (module attribute CASE_TIMEOUT, default 6 s).  A case
    that trips it is run again with ten times the budget; only a repeated trip is reported."""
    limit = getattr(mod, "CASE_TIMEOUT", 6.0)
    _WATCH["fired"] = False
    res = _watched(mod, case, limit)
    # whatever the property made of an interrupted run (it may have caught the interruption like any other exception
    # and judged half a result), a case the watchdog cut into is judged again with ten times the budget
    if _WATCH["fired"] or any("hangs-or-runs-away" in v.kind for v in res.violations):
        _WATCH["fired"] = False
        res = _watched(mod, case, 10 * limit)
    return res


class _Abort(BaseException):
    """leaves a Hypothesis run from inside the test function (budget exhausted)"""


class Shard:
    """One independently seeded slice of a property's domain.
    strategy: zero-argument callable returning a Hypothesis strategy of JSON cases, or
    cases:    zero-argument callable returning an iterable of JSON cases (enumeration)."""

    def __init__(self, name, strategy=None, n=0, cases=None, subject="", exhaustive=False, cost=1.0):
        self.name, self.strategy, self.n, self.cases = name, strategy, n, cases
        self.subject, self.exhaustive, self.cost = subject or name, exhaustive, cost


# ------------------------------------------------------------------ known findings
def load_known(prop):
    path = os.path.join(VERIF, "known_findings.json")
    if not os.path.exists(path):
        return []
    with open(path) as fh:
        doc = json.load(fh)
    return [e for e in doc.get("findings", []) if e.get("property") == prop and e.get("status") == "open"]


def match_known(known, sig):
    for entry in known:
        for pat in entry.get("signatures", []):
            if fnmatch.fnmatchcase(sig, pat):
                return entry
    return None


# ------------------------------------------------------------------ one shard
def _seed_for(seed, prop, shard_name):
    return (int(seed) * 1000003 + zlib.crc32(f"{prop}/{shard_name}".encode())) % (2**63)


def run_shard(args):
    prop, idx, tier, seed, t_end = args
    try:
        return _run_shard(prop, idx, tier, seed, t_end)
    except BaseException as exc:  # harness failure inside a worker
        text = "".join(traceback.format_exception(exc))
        if isinstance(exc, MemoryError) or "MemoryError" in text[-600:]:
            # the address-space limit was hit outside a case's own handlers: a runaway allocation by the library left
            # no room for the harness (which needs a few hundred MB); reported like a worker that died
            import gc

            del exc
            gc.collect()
            return {"shard": idx, "died": "MemoryError"}
        return {"shard": idx, "error": text[-4000:]}


def _run_shard(prop, idx, tier, seed, t_end):
    import resource

    from hxv.lib import case_hash

    try:  # backstop against a runaway allocation inside the library
        resource.setrlimit(resource.RLIMIT_AS, (3 << 30, 3 << 30))  # 16 workers x 3 GB stays below the machine's memory
    except (ValueError, OSError):
        pass

    mod = importlib.import_module(f"hxv.props.{prop.lower()}")
    shard = mod.shards(tier)[idx]
    known = load_known(prop)
    t0 = time.time()

    st = {
        "evals": 0,
        "nontrivial": set(),
        "labels": Counter(),
        "known": Counter(),
        "new": {},  # sig -> {"case":..., "detail":..., "size":..., "count":...}
        "samples": [],
        "info": Counter(),
        "short": False,
    }

    def observe(case):
        if time.time() > t_end:
            st["short"] = True
            raise _Abort()
        res = guarded(mod, case)
        st["evals"] += 1
        for lab in res.labels:
            st["labels"][lab] += 1
        for k, v in res.info.items():
            if k.startswith("max_"):
                st["info"][k] = max(st["info"][k], v)
            else:
                st["info"][k] += v
        if res.nontrivial:
            h = case_hash(case)
            if h not in st["nontrivial"]:
                st["nontrivial"].add(h)
                if len(st["nontrivial"]) in (7, 40):
                    st["samples"].append(case)
        for v in res.violations:
            sig = v.sig(prop, shard.subject)
            entry = match_known(known, sig)
            if entry is not None:
                st["known"][entry["id"]] += 1
                continue
            if "hangs-or-runs-away" in v.kind:
                st["hangs"] = st.get("hangs", 0) + 1
            size = len(json.dumps(case, default=str))
            cur = st["new"].get(sig)
            if cur is None:
                if len(st["new"]) >= 64:
                    continue
                st["new"][sig] = {"case": case, "detail": v.detail, "size": size, "count": 1}
            else:
                cur["count"] += 1
                if size < cur["size"]:
                    cur.update(case=case, detail=v.detail, size=size)
        if st.get("hangs", 0) >= 3:  # established; every further hang costs many CPU seconds
            st["short"] = True
            raise _Abort()
        return res

    hseed = _seed_for(seed, prop, shard.name)
    if shard.cases is not None:
        try:
            for case in shard.cases():
                observe(case)
        except _Abort:
            pass
    else:
        _explore(shard.strategy(), shard.n, hseed, observe, shrink=False)

    # shrink every new signature (collect-then-shrink), bounded in time
    shrunk = {}
    for sig in list(st["new"])[:MAX_SIGS_PER_SHARD]:
        best = dict(st["new"][sig])
        if shard.cases is None and "hangs-or-runs-away" not in sig:
            deadline = time.time() + SHRINK_CAP[tier]

            def failing(case, sig=sig, best=best, deadline=deadline):
                if time.time() > deadline:
                    raise _Abort()
                res = guarded(mod, case)
                for v in res.violations:
                    if v.sig(prop, shard.subject) == sig:
                        size = len(json.dumps(case, default=str))
                        if size <= best["size"]:
                            best.update(case=case, detail=v.detail, size=size)
                        raise AssertionError(sig)

            _explore(shard.strategy(), shard.n, hseed, failing, shrink=True)
        shrunk[sig] = best
    for sig in list(st["new"])[MAX_SIGS_PER_SHARD:]:
        shrunk[sig] = st["new"][sig]

    return {
        "shard": idx,
        "name": shard.name,
        "evals": st["evals"],
        "nontrivial": sorted(st["nontrivial"]),
        "labels": dict(st["labels"]),
        "known": dict(st["known"]),
        "new": {s: {"case": b["case"], "detail": b["detail"], "count": st["new"][s]["count"]} for s, b in shrunk.items()},
        "samples": st["samples"],
        "info": dict(st["info"]),
        "short": st["short"],
        "exhaustive": bool(shard.exhaustive and not st["short"]),
        "wall": round(time.time() - t0, 2),
    }


def _explore(strategy, n, hseed, fn, shrink):
    import hypothesis
    from hypothesis import HealthCheck, Phase, Verbosity, given, settings

    phases = [Phase.generate, Phase.shrink] if shrink else [Phase.generate]

    @settings(
        max_examples=n,
        database=None,
        deadline=None,
        derandomize=False,
        phases=phases,
        suppress_health_check=list(HealthCheck),
        report_multiple_bugs=False,
        verbosity=Verbosity.quiet,
        print_blob=False,
    )
    @hypothesis.seed(hseed)
    @given(strategy)
    def test(case):
        fn(case)

    try:
        test()
    except _Abort:
        pass
    except AssertionError:
        if not shrink:
            raise
    except Exception as exc:
        if shrink:  # Flaky etc. while shrinking under a time cap: keep the best case seen
            return
        raise exc


# ------------------------------------------------------------------ whole check
def trim_case(case, keep=10):
    """shorten long lists for the evidence file (the replay files keep everything)"""
    if isinstance(case, dict):
        return {k: trim_case(v, keep) for k, v in case.items()}
    if isinstance(case, list):
        if len(case) > keep and all(not isinstance(x, dict) or True for x in case):
            return [trim_case(x, keep) for x in case[:keep]] + [f"... {len(case) - keep} more"]
        return [trim_case(x, keep) for x in case]
    return case


def out_dir():
    """where evidence and new replay files go (HXV_OUT redirects them for mutant campaigns)"""
    return os.environ.get("HXV_OUT") or VERIF


def write_replay(prop, sig, shard_name, info):
    from hxv.lib import case_hash

    d = os.path.join(out_dir(), "replay", prop)
    os.makedirs(d, exist_ok=True)
    rel = os.path.join("replay", prop, case_hash([sig, info["case"]]) + ".json")
    with open(os.path.join(out_dir(), rel), "w") as fh:
        json.dump(
            {"property": prop, "shard": shard_name, "signature": sig, "detail": info["detail"], "case": info["case"]},
            fh,
            indent=1,
            default=str,
        )
    return rel


GRACE = {"quick": 420, "thorough": 2400}
RETRY_WAIT = 420  # seconds a lost shard gets when it is run again  # seconds past the soft wall cap before a silent worker is given up


def _shard_child(arg, conn):
    try:  # die with the parent (a killed check must not leave workers behind that hold its pipes open)
        import ctypes
        import signal

        ctypes.CDLL("libc.so.6", use_errno=True).prctl(1, int(signal.SIGKILL))
    except Exception:
        pass
    try:
        conn.send(run_shard(arg))
    finally:
        conn.close()
        if os.environ.get("HXV_COV"):
            from hxv import cov

            cov.dump()


def run_parallel(args, jobs, deadline):
    """one forked process per shard, each with a pipe of its own (no lock is shared between workers, so a worker
    that dies or stalls can neither block the others nor lose their results); a shard whose process ends without a
    result, or is still silent at the deadline, is run again in this process"""
    from multiprocessing.connection import wait

    ctx = mp.get_context("fork")
    todo, live, results, again = list(args), {}, [], []
    while todo or live:
        while todo and len(live) < jobs:
            a = todo.pop(0)
            rd, wr = ctx.Pipe(duplex=False)
            pr = ctx.Process(target=_shard_child, args=(a, wr), daemon=True)
            pr.start()
            wr.close()
            live[rd] = (pr, a)
        left = deadline - time.time()
        if left <= 0:
            for rd, (pr, a) in live.items():
                pr.kill()
                pr.join(10)
                again.append((a, "silent past the deadline"))
            again += [(a, "not started before the deadline") for a in todo]
            live, todo = {}, []
            break
        for rd in wait(list(live), timeout=min(left, 30)):
            pr, a = live.pop(rd)
            try:
                results.append(rd.recv())
            except (EOFError, OSError):
                pr.join(30)
                again.append((a, pr.exitcode))  # the process ended without reporting (killed by a limit, say)
            rd.close()
            pr.join(30)
    # once more, each in a fresh process (never in this one: what ended the worker - the interpreter killed by a memory
    # limit, a crash in C code - would end the whole check), all of them side by side under one deadline; a shard that
    # is lost twice is reported as a finding of its own
    retry = {}
    for a, code in again:
        print(f"note: shard {a[1]} gave no result from its worker process ({code}); running it again", file=sys.stderr, flush=True)
        rd, wr = ctx.Pipe(duplex=False)
        pr = ctx.Process(target=_shard_child, args=(a[:4] + (time.time() + RETRY_WAIT - 120,), wr), daemon=True)
        pr.start()
        wr.close()
        retry[rd] = (pr, a, code)
    end = time.time() + RETRY_WAIT
    while retry and time.time() < end:
        for rd in wait(list(retry), timeout=min(30, max(0.1, end - time.time()))):
            pr, a, code = retry.pop(rd)
            try:
                results.append(rd.recv())
            except (EOFError, OSError):
                pr.join(30)
                results.append({"shard": a[1], "died": pr.exitcode if pr.exitcode is not None else code})
            rd.close()
            pr.join(30)
    for rd, (pr, a, code) in retry.items():
        pr.kill()
        pr.join(10)
        results.append({"shard": a[1], "died": "silent twice"})
    return results


def regress_cases(prop):
    d = os.path.join(VERIF, "replay", prop)
    out = []
    if os.path.isdir(d):
        for fn in sorted(os.listdir(d)):
            if fn.startswith("regress-") and fn.endswith(".json"):
                with open(os.path.join(d, fn)) as fh:
                    out.append((fn, json.load(fh)["case"]))
    return out


def main_check(prop, tier, seed, only=None, jobs=None):
    t0 = time.time()
    try:  # the regression replays run in this process: the same backstop as in the shard workers
        import resource

        resource.setrlimit(resource.RLIMIT_AS, (3 << 30, 3 << 30))
    except (ValueError, OSError):
        pass
    mod = importlib.import_module(f"hxv.props.{prop.lower()}")
    shards = mod.shards(tier)
    known = load_known(prop)
    idxs = [i for i, s in enumerate(shards) if only is None or fnmatch.fnmatchcase(s.name, only)]
    t_end = t0 + WALL_CAP[tier]

    new, known_hits, errors = {}, Counter(), []
    evals, nontrivial, labels, info, samples, by_shard = 0, set(), Counter(), Counter(), [], {}

    # 1. seconds-long regression corpus (replays bypass Hypothesis entirely)
    n_regress = 0
    for fn, case in regress_cases(prop):
        n_regress += 1
        try:
            res = guarded(mod, case)
        except Exception as exc:
            errors.append(f"regress {fn}: " + "".join(traceback.format_exception(exc))[-2000:])
            continue
        evals += 1
        for v in res.violations:
            sig = v.sig(prop, case.get("subject", "regress") if isinstance(case, dict) else "regress")
            entry = match_known(known, sig)
            if entry is not None:
                known_hits[entry["id"]] += 1
            else:
                new.setdefault(sig, {"case": case, "detail": v.detail, "count": 1, "shard": "regress:" + fn})

    # 2. generated / enumerated shards
    order = sorted(idxs, key=lambda i: -shards[i].cost)
    jobs = jobs or min(16, os.cpu_count() or 1)
    args = [(prop, i, tier, seed, t_end) for i in order]
    if jobs == 1 or len(args) <= 1:
        results = [run_shard(a) for a in args]
    else:
        results = run_parallel(args, min(jobs, len(args)), t_end + GRACE[tier])

    exhaustive_all = bool(results)
    for r in sorted(results, key=lambda r: r["shard"]):
        if "error" in r:
            errors.append(f"shard {shards[r['shard']].name}: {r['error']}")
            continue
        if "died" in r:
            # the worker process of this shard ended twice without a result: something the library did on a generated
            # case took the interpreter down (memory limit, crash). Reported like a runaway computation.
            sh = shards[r["shard"]]
            exhaustive_all = False
            sig = f"{prop}|{sh.subject or sh.name}|hangs-or-runs-away|worker-process-died"
            new.setdefault(sig, {"case": {"shard": sh.name, "seed": seed, "tier": tier, "note": "re-run this shard: python -m hxv %s --tier %s --seed %s --only %s" % (prop, tier, seed, sh.name)}, "detail": f"the worker process of shard {sh.name} ended without a result twice (exit code {r['died']})", "count": 1, "shard": sh.name})
            continue
        evals += r["evals"]
        nontrivial.update(f"{r['name']}:{h}" for h in r["nontrivial"])
        labels.update(r["labels"])
        for k, v in r["info"].items():
            if k.startswith("max_"):
                info[k] = max(info[k], v)
            else:
                info[k] += v
        known_hits.update(r["known"])
        exhaustive_all = exhaustive_all and r["exhaustive"]
        for s in r["samples"]:
            if len(samples) < 5:
                samples.append({"shard": r["name"], "case": trim_case(s)})
        by_shard[r["name"]] = {
            "evaluations": r["evals"],
            "distinct_nontrivial": len(r["nontrivial"]),
            "wall_s": r["wall"],
            **({"short": True} if r["short"] else {}),
            **({"exhaustive": True} if r["exhaustive"] else {}),
        }
        for sig, inf in r["new"].items():
            if sig not in new:
                new[sig] = dict(inf, shard=r["name"])
            else:
                new[sig]["count"] += inf["count"]

    # 2b. coverage-guided stage (thorough tier; modules opt in with FUZZ = {"shards": [...], "runs": N})
    fuzz_ev = run_fuzz_stage(prop, mod, tier, seed, new) if only is None else None

    # 3. report
    lines = []
    for entry in known:
        if known_hits.get(entry["id"]):
            lines.append(f"KNOWN-FINDING: property={prop} {entry['id']} {entry['what']} (seen {known_hits[entry['id']]}x)")
    replays = []
    for sig, inf in sorted(new.items()):
        rel = write_replay(prop, sig, inf.get("shard", "?"), inf)
        replays.append(rel)
        lines.append(f"VIOLATION property={prop} replay={rel}")
        lines.append(f"  signature={sig} seen={inf['count']}x detail={inf['detail'][:300]}")

    rule = getattr(mod, "RULE", "")
    floors = {}
    for lab, (frac, denom) in getattr(mod, "FLOORS", {}).items():
        d = labels.get(denom, 0) if denom else evals
        got = labels.get(lab, 0) / d if d else 0.0
        floors[lab] = {"floor": frac, "measured": round(got, 4), "of": denom or "evaluations", "ok": got >= frac}

    evidence = {
        "property_id": prop,
        "tier": tier,
        "seed": int(seed),
        "level": "exploration",
        "coverage": {
            "evaluations": evals,
            "distinct_nontrivial": len(nontrivial),
            "rule": rule,
            "samples": samples,
            "exhaustive": False,
            "labels": dict(sorted(labels.items())),
            "label_floors": floors,
            "info": dict(sorted(info.items())),
            "by_shard": by_shard,
            "regression_replays": n_regress,
            "known_excluded": dict(known_hits),
            "enumerated_subdomains_exhaustive": sorted(n for n, b in by_shard.items() if b.get("exhaustive")),
            "new_signatures": sorted(new),
        },
        "assumptions": getattr(mod, "ASSUMPTIONS", []),
        "wall_s": round(time.time() - t0, 2),
        "violations": len(new),
    }
    if fuzz_ev is not None:
        evidence["coverage"]["fuzz"] = fuzz_ev
        evidence["coverage"]["evaluations"] += fuzz_ev.get("cases_judged", 0)
    extra = getattr(mod, "extra_evidence", None)
    if extra:
        evidence["coverage"].update(extra(tier))
    os.makedirs(os.path.join(out_dir(), "evidence"), exist_ok=True)
    if only is None:
        with open(os.path.join(out_dir(), "evidence", f"{prop}.json"), "w") as fh:
            json.dump(evidence, fh, indent=1, default=str)

    for ln in lines:
        print(ln)
    bad_floors = [k for k, v in floors.items() if not v["ok"]]
    print(
        f"{prop} tier={tier} seed={seed} evaluations={evals} distinct_nontrivial={len(nontrivial)} "
        f"known={sum(known_hits.values())} new_signatures={len(new)} wall={evidence['wall_s']}s"
        + (f" floors_below={bad_floors}" if bad_floors else "")
    )
    if errors:
        for e in errors:
            print("HARNESS-ERROR:", e, file=sys.stderr)
        return 2
    if new:
        return 1
    if len(nontrivial) < 2:
        print("HARNESS-ERROR: generator produced fewer than 2 non-trivial cases", file=sys.stderr)
        return 2
    return 0


def run_fuzz_stage(prop, mod, tier, seed, new):
    """atheris/libFuzzer over the same strategies and oracle (hxv/fuzz/target.py), several processes with
    different seeds, fresh corpus directories outside /repo and /verif.  Never turns an environment problem
    into a violation: if python3-vt/atheris is unavailable the stage is skipped and evidence says so."""
    import shutil
    import subprocess
    import tempfile

    from hxv import SRC

    cfg = getattr(mod, "FUZZ", None)
    if not cfg or (tier != "thorough" and not os.environ.get("HXV_FUZZ")):
        return None
    py = shutil.which("python3-vt") or "/opt/veriftools/pyvenv/bin/python"
    probe = subprocess.run([py, "-c", "import atheris, hypothesis"], capture_output=True, text=True)
    if probe.returncode != 0:
        return {"skipped": "atheris/hypothesis not importable under python3-vt: " + probe.stderr.strip()[-200:]}
    runs = int(os.environ.get("HXV_FUZZ_RUNS", cfg.get("runs", 200000 if tier == "thorough" else 5000)))
    budget = int(os.environ.get("HXV_FUZZ_SECONDS", cfg.get("seconds", 600 if tier == "thorough" else 20)))
    work = tempfile.mkdtemp(prefix="hxfuzz.", dir="/var/tmp")
    procs = []
    try:
        k = 0
        for shard_name in cfg["shards"]:
            for rep in range(cfg.get("procs_per_shard", 2)):
                corpus = os.path.join(work, f"corpus{k}")
                os.makedirs(corpus)
                if rep % 2 == 1:  # half of the processes start from a few small valid inputs, half from nothing
                    for i, blob in enumerate((b"\x00" * 64, bytes(range(256)), b"\x01\x02\x03" * 100)):
                        with open(os.path.join(corpus, f"seed{i}"), "wb") as fh:
                            fh.write(blob)
                env = dict(os.environ, PYTHONPATH=f"{VERIF}:{SRC}", PYTHONHASHSEED="0", HXV_OUT=out_dir())
                cmd = [py, "-m", "hxv.fuzz.target", prop, shard_name, f"-runs={runs}", f"-seed={int(seed) * 100 + k + 1}", "-max_len=4096", "-len_control=0", f"-max_total_time={budget}", "-print_final_stats=1", corpus]
                procs.append((shard_name, k, subprocess.Popen(cmd, cwd=VERIF, env=env, stdout=subprocess.PIPE, stderr=subprocess.STDOUT, text=True)))
                k += 1
        ev = {"engine": "atheris (libFuzzer) via hypothesis.fuzz_one_input", "processes": len(procs), "runs_requested_each": runs, "seconds_cap_each": budget, "execs": 0, "cases_judged": 0, "nontrivial_cases": 0, "known_excluded": 0, "by_process": []}
        for shard_name, k, pr in procs:
            out, _ = pr.communicate()
            execs = cov = ft = cases = nontriv = known_n = 0
            for ln in out.splitlines():
                if ln.startswith("stat::number_of_executed_units:") and ln.split()[-1].isdigit():
                    execs = int(ln.split()[-1])
                elif " cov: " in ln and " ft: " in ln:
                    import re

                    m1, m2 = re.search(r" cov: (\d+)", ln), re.search(r" ft: (\d+)", ln)
                    if m1 and m2:
                        cov, ft = int(m1.group(1)), int(m2.group(1))
                elif ln.startswith("FUZZ-STATS"):
                    try:
                        kv = dict(x.split("=") for x in ln.split()[1:])
                        cases, nontriv, known_n = int(kv["cases"]), int(kv["nontrivial"]), int(kv["known"])
                    except (ValueError, KeyError):
                        pass
                elif ln.startswith("FUZZ-VIOLATION"):
                    sig = ln.split("signature=")[1].split(" replay=")[0]
                    rel = ln.split(" replay=")[1].split(" detail=")[0]
                    detail = ln.split(" detail=")[1] if " detail=" in ln else ""
                    try:
                        with open(os.path.join(out_dir(), rel)) as fh:
                            case = json.load(fh)["case"]
                    except Exception:
                        case = None
                    if sig not in new:
                        new[sig] = {"case": case, "detail": detail, "count": 1, "shard": "fuzz:" + shard_name}
            ev["execs"] += execs
            ev["cases_judged"] += cases
            ev["nontrivial_cases"] += nontriv
            ev["known_excluded"] += known_n
            ev["by_process"].append({"shard": shard_name, "execs": execs, "cov": cov, "features": ft, "cases_judged_at_last_report": cases, "exit": pr.returncode})
        return ev
    finally:
        shutil.rmtree(work, ignore_errors=True)


def main_replay(prop, path):
    mod = importlib.import_module(f"hxv.props.{prop.lower()}")
    known = load_known(prop)
    with open(path if os.path.isabs(path) else os.path.join(VERIF, path)) as fh:
        doc = json.load(fh)
    case = doc["case"] if "case" in doc and "property" in doc else doc
    res = guarded(mod, case)
    rc = 0
    for v in res.violations:
        sig = v.sig(prop, doc.get("signature", "|replay|").split("|")[1] if isinstance(doc, dict) else "replay")
        entry = match_known(known, sig)
        if entry:
            print(f"KNOWN-FINDING: property={prop} {entry['id']} {entry['what']}")
        else:
            print(f"VIOLATION property={prop} replay={path}")
            print(f"  signature={sig} detail={v.detail[:500]}")
            rc = 1
    if not res.violations:
        print(f"{prop} replay {path}: no violation")
    return rc


def cli(argv=None):
    import argparse

    ap = argparse.ArgumentParser(prog="python -m hxv")
    ap.add_argument("prop")
    ap.add_argument("--tier", default=os.environ.get("VERIF_TIER", "quick"), choices=TIERS)
    ap.add_argument("--seed", type=int, default=None)
    ap.add_argument("--replay")
    ap.add_argument("--only", help="glob over shard names (debugging; evidence is not written)")
    ap.add_argument("--jobs", type=int)
    a = ap.parse_args(argv)
    prop = a.prop.upper()
    seed = a.seed if a.seed is not None else int(os.environ.get("VERIF_SEED", "1") or 1)
    try:
        if a.replay:
            return main_replay(prop, a.replay)
        return main_check(prop, a.tier, seed, a.only, a.jobs)
    except HarnessError as exc:
        print("HARNESS-ERROR:", exc, file=sys.stderr)
        return 2
    except Exception:
        traceback.print_exc()
        return 2

"""Shared helpers: JSON cases <-> live library objects, snapshots, violations."""
from __future__ import annotations

import hashlib
import json
import math
import traceback
from copy import deepcopy
from datetime import datetime, timedelta, timezone

from hxv import SRC, load_hexital

load_hexital()

from hexital import Candle  # noqa: E402
from hexital import indicators as I  # noqa: E402
from hexital.analysis import MOVEMENT_MAP, PATTERN_MAP  # noqa: E402

EPOCH = datetime(1970, 1, 1)
FIELDS = ("open", "high", "low", "close", "volume")


# ---------------------------------------------------------------- cases
def case_hash(case) -> str:
    return hashlib.sha1(json.dumps(case, sort_keys=True, default=str).encode()).hexdigest()[:12]


TZOFFS = (None, None, None, None, None, None, 0, 330, -300, 345, 60, -210)  # minutes east of UTC; None = naive


def ts_to_dt(ts, tzoff=None):
    """tzoff: the same wall-clock reading, but timezone-aware with a fixed UTC offset of tzoff minutes"""
    if ts is None:
        return None
    dt = EPOCH + timedelta(seconds=ts)
    return dt if tzoff is None else dt.replace(tzinfo=timezone(timedelta(minutes=tzoff)))


def dt_to_ts(dt):
    """seconds on the timestamp's own wall clock (an aware timestamp keeps its wall-clock reading)"""
    if dt is None:
        return None
    d = dt.replace(tzinfo=None) - EPOCH
    return d.days * 86400 + d.seconds + (d.microseconds / 1e6 if d.microseconds else 0)


def mk_candle(row, tzoff=None) -> Candle:
    """row = [ts, o, h, l, c, v]"""
    ts, o, h, l, c, v = row
    return Candle(o, h, l, c, v, timestamp=ts_to_dt(ts, tzoff))


def mk_candles(rows, tzoff=None):
    return [mk_candle(r, tzoff) for r in rows]


def utc_offsets(candles) -> set:
    """the UTC offsets (minutes, None = naive) the candles' timestamps carry"""
    out = set()
    for c in candles:
        off = c.timestamp.utcoffset() if c.timestamp is not None else None
        out.add(None if off is None else int(off.total_seconds() // 60))
    return out


def tf_seconds(tf: str) -> int:
    unit = {"S": 1, "T": 60, "H": 3600, "D": 86400}[tf[0]]
    return unit * int(tf[1:])


def split_chunks(n: int, chunks) -> list:
    """Turn a list of chunk sizes into index ranges covering 0..n exactly.
    Robust to any list (so that shrinking by deletion keeps a case valid):
    sizes are consumed in order, what is left over forms a final chunk."""
    out, pos = [], 0
    for size in chunks:
        if pos >= n:
            break
        size = max(0, min(int(size), n - pos))
        out.append((pos, pos + size))
        pos += size
    if pos < n:
        out.append((pos, n))
    return out


# ---------------------------------------------------------------- indicators
def build_indicator(cfg: dict, **extra):
    """cfg = {"cls": "EMA", "kw": {...}} or {"analysis": "rising", "kw": {...}}"""
    kw = dict(cfg.get("kw", {}))
    kw.update(extra)
    if isinstance(kw.get("timeframe"), str) and kw["timeframe"].startswith("enum:"):
        # "enum:T5": the TimeFrame member whose value is T5 (cases are JSON, the enum is a spelling of the same timeframe)
        from hexital import TimeFrame

        kw["timeframe"] = next(m for m in TimeFrame if m.value == kw["timeframe"][5:].upper())
    if "analysis" in cfg:
        fn = (PATTERN_MAP | MOVEMENT_MAP)[cfg["analysis"]]
        return I.Amorph(analysis=fn, **kw)
    return getattr(I, cfg["cls"])(**kw)


def mgr_kwargs(case) -> dict:
    kw = {}
    if case.get("tf"):
        kw["timeframe"] = case["tf"]
        if case.get("fill"):
            kw["timeframe_fill"] = True
    if case.get("lifespan") is not None:
        kw["candles_lifespan"] = timedelta(seconds=case["lifespan"])
    if case.get("ha"):
        kw["candlestick_type"] = "HA"
    return kw


INTERLUDE_OPS = ("recalculate", "purge_calculate", "calculate_index", "calculate_index", "calculate_twice")


def interlude(draw_int, draw_choice):
    """a maintenance operation slipped into a run (C14: it must leave the batch state behind, so every oracle of the
    surrounding property applies unchanged)"""
    return {"op": draw_choice(INTERLUDE_OPS), "a": draw_int(0, 60), "b": draw_int(0, 5), "after": draw_int(0, 6)}


def apply_interlude(ind, inter):
    op, n = inter["op"], len(ind.candles)
    if op == "recalculate":
        ind.recalculate()
    elif op == "purge_calculate":
        ind.purge()
        ind.calculate()
    elif op == "calculate_twice":
        ind.calculate()
        ind.calculate()
    elif op == "calculate_index" and n:
        i = inter["a"] % n
        j = i + 1 if inter["b"] == 0 else min(n, i + inter["b"])
        # C14 speaks of recomputing an index that already holds a reading (an indicator that was never calculated
        # has not even built its helpers): anything else is skipped
        if any(ind.name not in ind.candles[k].indicators for k in range(i, j)):
            return
        if inter["b"] == 0:
            ind.calculate_index(i - n)  # the same candle by its negative index
        else:
            ind.calculate_index(i, j)


# ---------------------------------------------------------------- snapshots
def snap_candle(c, readings=True):
    row = [dt_to_ts(c.timestamp), c.open, c.high, c.low, c.close, c.volume]
    if readings:
        row.append(deepcopy(c.indicators))
        row.append(deepcopy(c.sub_indicators))
    return row


def snap(candles, readings=True):
    return [snap_candle(c, readings) for c in candles]


def first_diff(a: list, b: list):
    """index and description of the first difference between two snapshots"""
    for i, (x, y) in enumerate(zip(a, b)):
        if not same(x, y):
            return i, describe_diff(x, y)
    if len(a) != len(b):
        return min(len(a), len(b)), f"length {len(a)} vs {len(b)}"
    return None


def same(x, y) -> bool:
    """structural equality where nan == nan and 1 == 1.0 but True != 1"""
    if isinstance(x, float) and isinstance(y, float) and x != x and y != y:
        return True
    if isinstance(x, bool) != isinstance(y, bool):
        return False
    if isinstance(x, dict) and isinstance(y, dict):
        return x.keys() == y.keys() and all(same(x[k], y[k]) for k in x)
    if isinstance(x, (list, tuple)) and isinstance(y, (list, tuple)):
        return len(x) == len(y) and all(same(p, q) for p, q in zip(x, y))
    return x == y


def describe_diff(x, y) -> str:
    names = ["timestamp", "open", "high", "low", "close", "volume", "indicators", "sub_indicators"]
    if isinstance(x, list) and isinstance(y, list):
        for k, (p, q) in enumerate(zip(x, y)):
            if not same(p, q):
                nm = names[k] if k < len(names) else str(k)
                if isinstance(p, dict) and isinstance(q, dict):
                    for key in sorted(set(p) | set(q)):
                        if not same(p.get(key, "<absent>"), q.get(key, "<absent>")):
                            return f"{nm}[{key}]: {p.get(key, '<absent>')!r} vs {q.get(key, '<absent>')!r}"
                return f"{nm}: {p!r} vs {q!r}"
    return f"{x!r} vs {y!r}"


def diff_key(x, y):
    """which reading key differs first between two candle snapshots (for signatures)"""
    if isinstance(x, list) and isinstance(y, list):
        names = ["timestamp", "open", "high", "low", "close", "volume"]
        for k, (p, q) in enumerate(zip(x, y)):
            if not same(p, q):
                if k < 6:
                    return names[k]
                if isinstance(p, dict) and isinstance(q, dict):
                    for key in sorted(set(p) | set(q)):
                        if not same(p.get(key, "<absent>"), q.get(key, "<absent>")):
                            return ("ind:" if k == 6 else "sub:") + key
    return "?"


# ---------------------------------------------------------------- violations
class Violation:
    """kind: what relation broke; site: where (field / function / code location);
    subject: the indicator class or function the shard is about."""

    def __init__(self, kind: str, site: str, detail: str = "", subject: str = ""):
        self.kind, self.site, self.detail, self.subject = kind, site, detail, subject

    def sig(self, prop: str, subject: str = "") -> str:
        return f"{prop}|{self.subject or subject}|{self.kind}|{self.site}"

    def __repr__(self):
        return f"Violation({self.kind}, {self.site}, {self.detail[:200]})"


def exc_site(exc: BaseException) -> str:
    """innermost frame inside the library under test: 'rsi.py:_calculate_reading'"""
    site = None
    for fr in traceback.extract_tb(exc.__traceback__):
        if fr.filename.startswith(SRC):
            site = f"{fr.filename.rsplit('/', 1)[-1]}:{fr.name}"
    return site or "outside-library"


def raises(exc: BaseException, subject: str = "") -> Violation:
    if type(exc).__name__ in ("CaseTimeout", "MemoryError"):
        return Violation("hangs-or-runs-away", "watchdog", f"{type(exc).__name__} (last library frame {exc_site(exc)})", subject)
    return Violation(
        f"raises:{type(exc).__name__}", exc_site(exc), f"{type(exc).__name__}: {exc}"[:300], subject
    )


class Result:
    __slots__ = ("violations", "nontrivial", "labels", "info")

    def __init__(self, violations=None, nontrivial=False, labels=(), info=None):
        self.violations = list(violations or [])
        self.nontrivial = bool(nontrivial)
        self.labels = list(labels)
        self.info = info or {}


def is_num(x) -> bool:
    return isinstance(x, (int, float)) and not isinstance(x, bool)


def finite(x) -> bool:
    return is_num(x) and math.isfinite(x)

#!/bin/bash
# usage: tools/seed_eval.sh <seed-dir containing patch.diff demo.py meta.json> <props,comma> [hxv args]
# Confirms independently: demo passes on /repo; with the patch applied to a scratch copy the repo suite is
# green (325 passed) and the demo fails; then runs the named quick checks against the patched copy.
set -u
sd=$(realpath "$1"); props=$2; shift 2
work=$(mktemp -d /var/tmp/hxseed.XXXXXX); trap 'rm -rf "$work"' EXIT
cp -r /repo "$work/repo"; rm -rf "$work/repo/.git"
echo "== demo on unchanged /repo:"; ( cd /repo && PYTHONPATH=/repo timeout 300 /venv/bin/python "$sd/demo.py" >/dev/null 2>&1; echo "demo rc=$? (want 0)" )
( cd "$work/repo" && patch -p1 -s < "$sd/patch.diff" ) || { echo "PATCH-FAILED"; exit 3; }
echo "== suite with patch:"; ( cd "$work/repo" && PYTHONPATH="$work/repo" /venv/bin/python -m pytest -q -p no:cacheprovider 2>&1 | tail -1 )
echo "== demo with patch:"; ( cd "$work/repo" && PYTHONPATH="$work/repo" timeout 300 /venv/bin/python "$sd/demo.py" >/dev/null 2>&1; echo "demo rc=$? (want !=0)" )
cd /verif
for p in ${props//,/ }; do
  before=$(ls replay/$p 2>/dev/null | sort)
  cp evidence/$p.json "$work/$p.ev" 2>/dev/null
  HEXITAL_SRC="$work/repo" /venv/bin/python -m hxv $p --tier quick "$@" 2>&1 | cut -c1-260 | head -12
  echo "SEED $(basename $sd) $p rc=${PIPESTATUS[0]}"
  for f in $(ls replay/$p 2>/dev/null); do echo "$before" | grep -qx "$f" || rm -f replay/$p/$f; done
  [ -f "$work/$p.ev" ] && cp "$work/$p.ev" evidence/$p.json
done

"""Source of MANIFEST.json (tools/gen_manifest.py).  A property is moved into CHECKS only when its
check exists, is silent on the unchanged tree and has caught a seeded change."""

EXPL = "Exploration: generated-input search against an explicit oracle; evidence reports cases generated, distinct non-trivial cases and samples. No absence claim beyond the explored sample."

CHECKS = {
    "C01": {
        "technique": "property-based differential testing: Hypothesis-generated (indicator config x timeframe/fill x regime stream x append composition) cases, incremental run vs batch twin compared exactly on every candle's values and reading dicts; one shard per indicator class / analysis wrapper; all 128 compositions of five fixed 8-candle streams enumerated per subject",
        "level": EXPL + " 44 subjects x 400 generated cases (quick) plus 2 560 enumerated schedules per subject.",
        "ref": "DESIGN.md section 4 C01",
        "note": "Oracle is the library itself under a different schedule (exact equality, no tolerance); streams <= 60 candles quick / 200 thorough.",
    },
    "C02": {
        "technique": "property-based testing with a history invariant (deep snapshot after every append: closed candles must be a prefix of every later snapshot) and a prefix metamorphic relation (batch over stream[:k] vs batch over the whole stream), standalone and through Hexital.get_candles() with two timeframes; plus chain histories (an indicator reading another member's output, registered before or after it; generated and enumerated over the chain pool)",
        "level": EXPL,
        "ref": "DESIGN.md section 4 C02",
        "note": "Exact comparison of the library with itself at two times / two lengths; the still-forming bucket of a collapsing timeframe is excluded as the statement excludes it.",
    },
    "C03": {
        "technique": "property-based differential testing against an independent integer resampler (Hypothesis-generated timestamp patterns x timeframes x append compositions, compared after every append) plus exhaustive enumeration of all append compositions of fixed 7-candle patterns; Hexital entry point with sibling member timeframes created in one call; timezone-aware timestamps (labels must keep the offset)",
        "level": EXPL + " All 64 compositions of ten hand-picked boundary patterns are enumerated.",
        "ref": "DESIGN.md section 4 C03",
        "note": "Trusts the 40-line reference resampler hxv/ref/resample.py and TZ=UTC pinning; streams up to 120 candles, multipliers 1-60.",
    },
    "C04": {
        "technique": "property-based testing against textbook reference implementations in bounded (value +- rounding error) arithmetic, plus recurrence-local check, warm-up index, input-range bound and a metamorphic position-independence relation; inputs are price fields, volume, synthetic late-starting reading series and real upstream indicators; a metamorphic re-tune relation (build with another period, set the attribute, recalculate() == fresh indicator) and a maintenance interlude slipped into the run",
        "level": EXPL,
        "ref": "DESIGN.md section 4 C04 and section 6",
        "note": "Trusts hxv/ref/bounded.py + hxv/ref/indicators.py (independent of hexital); the tolerance is a computed over-approximation of what the configured rounding can introduce, never a hand-picked epsilon.",
    },
    "C05": {
        "technique": "property-based testing against independent textbook definitions (TR, ATR, sigma, BBANDS, KC, Donchian, Highest/Lowest, HLA, Supertrend, threshold flag, Counter) computed from the raw candles in bounded arithmetic; discrete decisions judged on bounded values with ambiguous cases skipped; re-tune + recalculate relation for helper-free classes, maintenance interludes, micro-tick streams on which sigma stores as exactly 0.0",
        "level": EXPL,
        "ref": "DESIGN.md section 4 C05 and section 6",
        "note": "Trusts the reference definitions; where the prose leaves a window convention open (HighestLowest) either convention is accepted consistently over a case.",
    },
    "C06": {
        "technique": "property-based testing against independent textbook definitions (RSI, MACD, ROC, STOCH, TSI, Aroon, ADX, OBV, VWAP) in bounded arithmetic; singular points only require a value to be present; OBV compared exactly; fractional lots (OBV then judged in bounded arithmetic), re-tune + recalculate relation, maintenance interludes",
        "level": EXPL,
        "ref": "DESIGN.md section 4 C06 and section 6",
        "note": "Trusts the reference definitions; ADX start-up accepts either textbook convention for the first candle's directional movement, consistently per case.",
    },
    "C11": {
        "technique": "property-based differential testing against a reference Heikin-Ashi recurrence over (reference-resampled) raw candles under generated append schedules, with a counting HeikinAshi subclass for the exactly-once clause, clean_values check and a plain-candle twin for the readings; standalone and Hexital with an extra timeframe; with a candle lifespan on the base timeframe the retained candles must be the tail of the full recurrence",
        "level": EXPL,
        "ref": "DESIGN.md section 4 C11",
        "note": "Trusts hxv/ref/heikin.py and hxv/ref/resample.py; OHLC compared within 1e-9 relative.",
    },
    "C12": {
        "technique": "property-based differential testing against the reference resampler with gap filling, plus contiguity / flat-zero-volume / real-buckets-unchanged invariants and schedule independence vs the batch run, on generated multi-gap timestamp patterns; with a candle lifespan (single-manager modes) the retained candles must be the tail of the untrimmed filled series; timezone-aware timestamps",
        "level": EXPL,
        "ref": "DESIGN.md section 4 C12",
        "note": "Trusts hxv/ref/resample.py; integer OHLCV so comparison is exact.",
    },
    "C15": {
        "technique": "property-based differential testing against an untrimmed twin fed the same append schedule, compared after every append: retained window for arbitrary lifespans (bare manager / look-back-free indicator, with and without Heikin-Ashi), retained readings for every indicator class with lifespan >= warm-up + largest chunk + margin",
        "level": EXPL,
        "ref": "DESIGN.md section 4 C15",
        "note": "The precondition of the second clause is established by construction from a generous per-class look-back bound (hxv/gen/configs.py).",
    },
    "C18": {
        "technique": "property-based in-process differential testing across process time zones (POSIX TZ rule strings incl. half-hour/45-minute offsets and DST zones, timestamps on transition days): collapse under TZ=<zone> vs TZ=UTC vs the zone-free reference resampler; fresh-process shards: batches collapsed by a child interpreter started under the zone (library imported there), compared with the UTC outcome",
        "level": EXPL,
        "ref": "DESIGN.md section 4 C18",
        "note": "Relies on the C library interpreting POSIX TZ strings (no tz database needed); the harness owns TZ/tzset inside the property body.",
    },
}

CHECKS.update({
    "C07": {
        "technique": "property-based metamorphic testing over a deterministic measurement: executed-line counts (sys.settrace restricted to indicator/analysis/utils code) of single appends at three history lengths 100/400/1600 (thorough 200/1600/6400) on generated tiled streams, for every indicator class, analysis wrapper, a user-style sparse-signal wrapper and Hexitals holding several",
        "level": EXPL + " No wall-clock time is used anywhere.",
        "ref": "DESIGN.md section 4 C07",
        "note": "Work = executed Python lines in hexital/indicators, hexital/analysis, core/indicator.py, utils/candles.py, utils/indexing.py; work hidden inside C builtins (list copies) is not visible.",
    },
    "C08": {
        "technique": "property-based differential testing: generated Hexitals (1-5 members as object / config dict / .settings dict, mixed timeframes, Hexital-level timeframe, fill, lifespan, Heikin-Ashi, constructor/append supply) against standalone twins with the effective configuration fed the same stream; settings round trip; every class enumerated once in settings form",
        "level": EXPL,
        "ref": "DESIGN.md section 4 C08",
        "note": "The effective configuration of a member is read off Hexital._validate_indicators; member timeframes are multiples of the Hexital's; the former open finding D33 (now repaired) is recognised by an exact mechanism predicate and reported as its own violation kind.",
    },
    "C09": {
        "technique": "property-based testing of a validity predicate (no exception, finite values only, no gap after the first value per output field) on generators biased to degenerate regimes: flat from the start, flat tails, monotone runs, zero-volume windows, fill-inserted flats, volume inputs that dry up; one shard per class and wrapper; timezone-aware timestamps; maintenance interludes (recalculate, purge, recompute an index) between appends must not raise either",
        "level": EXPL,
        "ref": "DESIGN.md section 4 C09",
        "note": "Inputs restricted to what the statement admits (finite positive prices, volume >= 0); exceptions bucketed by (type, innermost library frame).",
    },
    "C10": {
        "technique": "property-based testing of named structural invariants (ranges, orderings, identities, rounding) over generated configurations incl. round_value 0..8 and collapsing timeframes",
        "level": EXPL,
        "ref": "DESIGN.md section 4 C10",
        "note": "Slack per relation is the rounding of the fields involved, stated in the code; DI lines are only bounded below (they may legitimately pass 100 at start-up).",
    },
    "C13": {
        "technique": "property-based model-based testing with generated operation programs (purge / recalculate / remove_indicator / calculate / append aimed at one member) against solo-twin Hexitals, with templates that force name relationships; all ordered pairs of the registry enumerated",
        "level": EXPL + " The ordered-pair sub-domain (44 x 43 pairs at fixed parameters) is enumerated completely.",
        "ref": "DESIGN.md section 4 C13",
        "note": "Operation programs are generated as data (lists) and interpreted, so the shrunk program is the replay file.",
    },
    "C14": {
        "technique": "property-based stateful testing: generated maintenance programs (append, calculate, purge, recalculate, calculate_index +/-i, add_indicator, remove_indicator) interpreted against a model (rows so far, registered set, per-member calculated flag) with a post-condition per operation and convergence to a batch twin",
        "level": EXPL,
        "ref": "DESIGN.md section 4 C14",
        "note": "Purge footprint = keys a solo twin of the member writes; calculate_index is only issued where the statement's precondition holds in the model.",
    },
    "C16": {
        "technique": "property-based metamorphic testing: for every function of the movement and pattern maps, every valid index of generated candle lists with missing readings: f(index=i) == f(candles[:i+1]) == f(index=i-len); Amorph wrapper live vs batch; all (index, length) pairs enumerated on short lists",
        "level": EXPL,
        "ref": "DESIGN.md section 4 C16",
        "note": "Exact comparison of the library with itself on truncated input.",
    },
    "C17": {
        "technique": "property-based testing against reference predicates written from the docstrings (movement), exact geometry formulas, constructed pattern witnesses / single-clause counter-witnesses with margin >= 2, and metamorphic scale/shift invariance on dyadic grids; geometry re-read after the library rewrote the candle (HA conversion, merge, recovery)",
        "level": EXPL,
        "ref": "DESIGN.md section 4 C17",
        "note": "Behaviour near a pattern threshold is deliberately not judged; highestbar/lowestbar accept either reading of `length` consistently per case.",
    },
    "C19": {
        "technique": "property-based stateful testing: generated programs interleaving read-only calls with appends in every input encoding, against a twin object that gets the same candles as Candle objects and no reads; deep state comparison after every operation, caller containers compared with a pre-call deep copy, Hexital timeframes compared with the reference resampler; fractional lots",
        "level": EXPL,
        "ref": "DESIGN.md section 4 C19",
        "note": "State = all instance attributes recursively through helper indicators plus the deep candle snapshot.",
    },
    "C20": {
        "technique": "property-based testing of pairwise accessor agreement on generated Hexitals whose members legitimately read 0 / False / dicts, for every plain and dotted name and every in-range positive and negative index; Hexitals with a timeframe of their own (possibly the one a member names)",
        "level": EXPL,
        "ref": "DESIGN.md section 4 C20",
        "note": "The per-candle dicts are the reference the accessors are compared with.",
    },
})

_PENDING = "check under construction in this session; will be claimed once it is silent on the unchanged tree and has caught a seeded change"
NOT_APPLICABLE = [
    {"property_id": f"C{n:02d}", "reason": _PENDING}
    for n in range(1, 21)
    if f"C{n:02d}" not in CHECKS
]

"""Source of MANIFEST.json (tools/gen_manifest.py).  A property is moved into CHECKS only when its
check exists, is silent on the unchanged tree and has caught a seeded change."""

EXPL = "Exploration: generated-input search against an explicit oracle; evidence reports cases generated, distinct non-trivial cases and samples. No absence claim beyond the explored sample."

CHECKS = {
    "C01": {
        "technique": "property-based differential testing: Hypothesis-generated (indicator config x timeframe/fill x regime stream x append composition) cases, incremental run vs batch twin compared exactly on every candle's values and reading dicts; one shard per indicator class / analysis wrapper; all 128 compositions of five fixed 8-candle streams enumerated per subject",
        "level": EXPL + " 44 subjects x 400 generated cases (quick) plus 2 560 enumerated schedules per subject.",
        "ref": "DESIGN.md section 4 C01",
        "note": "Oracle is the library itself under a different schedule (exact equality, no tolerance); streams <= 60 candles quick / 200 thorough.",
    },
    "C02": {
        "technique": "property-based testing with a history invariant (deep snapshot after every append: closed candles must be a prefix of every later snapshot) and a prefix metamorphic relation (batch over stream[:k] vs batch over the whole stream), standalone and through Hexital.get_candles() with two timeframes",
        "level": EXPL,
        "ref": "DESIGN.md section 4 C02",
        "note": "Exact comparison of the library with itself at two times / two lengths; the still-forming bucket of a collapsing timeframe is excluded as the statement excludes it.",
    },
    "C03": {
        "technique": "property-based differential testing against an independent integer resampler (Hypothesis-generated timestamp patterns x timeframes x append compositions, compared after every append) plus exhaustive enumeration of all append compositions of fixed 7-candle patterns",
        "level": EXPL + " All 64 compositions of ten hand-picked boundary patterns are enumerated.",
        "ref": "DESIGN.md section 4 C03",
        "note": "Trusts the 40-line reference resampler hxv/ref/resample.py and TZ=UTC pinning; streams up to 120 candles, multipliers 1-60.",
    },
    "C04": {
        "technique": "property-based testing against textbook reference implementations in bounded (value +- rounding error) arithmetic, plus recurrence-local check, warm-up index, input-range bound and a metamorphic position-independence relation; inputs are price fields, volume, synthetic late-starting reading series and real upstream indicators",
        "level": EXPL,
        "ref": "DESIGN.md section 4 C04 and section 6",
        "note": "Trusts hxv/ref/bounded.py + hxv/ref/indicators.py (independent of hexital); the tolerance is a computed over-approximation of what the configured rounding can introduce, never a hand-picked epsilon.",
    },
    "C05": {
        "technique": "property-based testing against independent textbook definitions (TR, ATR, sigma, BBANDS, KC, Donchian, Highest/Lowest, HLA, Supertrend, threshold flag, Counter) computed from the raw candles in bounded arithmetic; discrete decisions judged on bounded values with ambiguous cases skipped",
        "level": EXPL,
        "ref": "DESIGN.md section 4 C05 and section 6",
        "note": "Trusts the reference definitions; where the prose leaves a window convention open (HighestLowest) either convention is accepted consistently over a case.",
    },
    "C06": {
        "technique": "property-based testing against independent textbook definitions (RSI, MACD, ROC, STOCH, TSI, Aroon, ADX, OBV, VWAP) in bounded arithmetic; singular points only require a value to be present; OBV compared exactly",
        "level": EXPL,
        "ref": "DESIGN.md section 4 C06 and section 6",
        "note": "Trusts the reference definitions; ADX start-up accepts either textbook convention for the first candle's directional movement, consistently per case.",
    },
    "C11": {
        "technique": "property-based differential testing against a reference Heikin-Ashi recurrence over (reference-resampled) raw candles under generated append schedules, with a counting HeikinAshi subclass for the exactly-once clause, clean_values check and a plain-candle twin for the readings; standalone and Hexital with an extra timeframe",
        "level": EXPL,
        "ref": "DESIGN.md section 4 C11",
        "note": "Trusts hxv/ref/heikin.py and hxv/ref/resample.py; OHLC compared within 1e-9 relative.",
    },
    "C12": {
        "technique": "property-based differential testing against the reference resampler with gap filling, plus contiguity / flat-zero-volume / real-buckets-unchanged invariants and schedule independence vs the batch run, on generated multi-gap timestamp patterns",
        "level": EXPL,
        "ref": "DESIGN.md section 4 C12",
        "note": "Trusts hxv/ref/resample.py; integer OHLCV so comparison is exact.",
    },
    "C15": {
        "technique": "property-based differential testing against an untrimmed twin fed the same append schedule, compared after every append: retained window for arbitrary lifespans (bare manager / look-back-free indicator, with and without Heikin-Ashi), retained readings for every indicator class with lifespan >= warm-up + largest chunk + margin",
        "level": EXPL,
        "ref": "DESIGN.md section 4 C15",
        "note": "The precondition of the second clause is established by construction from a generous per-class look-back bound (hxv/gen/configs.py).",
    },
    "C18": {
        "technique": "property-based in-process differential testing across process time zones (POSIX TZ rule strings incl. half-hour/45-minute offsets and DST zones, timestamps on transition days): collapse under TZ=<zone> vs TZ=UTC vs the zone-free reference resampler",
        "level": EXPL,
        "ref": "DESIGN.md section 4 C18",
        "note": "Relies on the C library interpreting POSIX TZ strings (no tz database needed); the harness owns TZ/tzset inside the property body.",
    },
}

_PENDING = "check under construction in this session; will be claimed once it is silent on the unchanged tree and has caught a seeded change"
NOT_APPLICABLE = [
    {"property_id": f"C{n:02d}", "reason": _PENDING}
    for n in range(1, 21)
    if f"C{n:02d}" not in CHECKS
]

"""Source of MANIFEST.json (tools/gen_manifest.py).  A property moves from NOT_APPLICABLE-pending
to CHECKS only when its check exists, is silent on the unchanged tree and has caught a mutant."""

CHECKS = {
    "C03": {
        "technique": "property-based differential testing against an independent integer resampler (Hypothesis-generated timestamp patterns x timeframes x append compositions) plus exhaustive enumeration of all append compositions of fixed 7-candle patterns",
        "level": "Exploration: tens of thousands of generated (stream, timeframe, schedule, repeated-collapse) cases per run compared exactly with a reference resampler written from the statement; all 64 compositions of ten hand-picked boundary patterns enumerated. No absence claim beyond the explored sample.",
        "ref": "DESIGN.md section 4 C03",
        "note": "Trusts the 40-line reference resampler hxv/ref/resample.py and TZ=UTC pinning; streams up to 120 candles, multipliers 1-60.",
    },
}

_PENDING = "check under construction in this session; will be claimed once it is silent on the unchanged tree and has caught a seeded mutant"
NOT_APPLICABLE = [
    {"property_id": f"C{n:02d}", "reason": _PENDING}
    for n in range(1, 21)
    if f"C{n:02d}" not in CHECKS
]

#!/usr/bin/env python3
"""usage: tools/coverage_report.py <cov-dir> [src]   - merge hxv/cov.py dumps, list library lines no check executed."""
import ast, glob, json, os, sys

d = sys.argv[1]
src = sys.argv[2] if len(sys.argv) > 2 else "/repo"
hits = set()
for f in glob.glob(os.path.join(d, "*.json")):
    hits |= {tuple(x) for x in json.load(open(f))}
root = os.path.join(src, "hexital")
tot = cov = 0
for dp, _, fns in sorted(os.walk(root)):
    for fn in sorted(fns):
        if not fn.endswith(".py"):
            continue
        path = os.path.join(dp, fn)
        rel = os.path.relpath(path, root)
        tree = ast.parse(open(path).read())
        lines = set()
        for node in ast.walk(tree):
            if isinstance(node, ast.stmt) and not isinstance(node, (ast.FunctionDef, ast.ClassDef, ast.AsyncFunctionDef, ast.Import, ast.ImportFrom)):
                if isinstance(node, ast.Expr) and isinstance(node.value, ast.Constant) and isinstance(node.value.value, str):
                    continue  # docstring
                lines.add(node.lineno)
        got = {l for (f, l) in hits if f == rel}
        miss = sorted(lines - got)
        tot += len(lines); cov += len(lines & got)
        if miss:
            print(f"{rel}: {len(lines & got)}/{len(lines)}  missing {miss}")
print(f"TOTAL {cov}/{tot} = {100.0*cov/max(1,tot):.1f}%")

#!/usr/bin/env python3
"""Maintains known_findings.json.  usage:
  kf.py fixed <Did> <prop> <commit> "<what failed>"
  kf.py open  <Did> <prop> "<what fails>" <signature-glob> [<signature-glob>...]
The file is read (never written) by the checks."""
import json, os, sys
P = os.path.join(os.path.dirname(os.path.dirname(os.path.abspath(__file__))), "known_findings.json")
doc = json.load(open(P)) if os.path.exists(P) else {"comment": "open entries suppress exactly the listed signatures (KNOWN-FINDING lines); fixed entries suppress nothing", "findings": []}
kind = sys.argv[1]
if kind == "fixed":
    _, _, did, prop, commit, what = sys.argv
    doc["findings"] = [f for f in doc["findings"] if not (f["id"] == did and f["property"] == prop)]
    doc["findings"].append({"id": did, "property": prop, "status": "fixed", "commit": commit, "what": what,
                            "line": f"fixed: property={prop} {commit} {what}"})
elif kind == "open":
    did, prop, what, sigs = sys.argv[2], sys.argv[3], sys.argv[4], sys.argv[5:]
    doc["findings"] = [f for f in doc["findings"] if not (f["id"] == did and f["property"] == prop)]
    doc["findings"].append({"id": did, "property": prop, "status": "open", "what": what, "signatures": sigs})
doc["findings"].sort(key=lambda f: (f["property"], f["id"]))
json.dump(doc, open(P, "w"), indent=1)

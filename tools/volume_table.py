#!/usr/bin/env python3
"""Print 'evaluations / distinct non-trivial / wall' per property from evidence/*.json (for DESIGN.md section 0.4)."""
import json, glob, os
for f in sorted(glob.glob(os.path.join(os.path.dirname(__file__), "..", "evidence", "C*.json"))):
    d = json.load(open(f)); c = d["coverage"]
    print(f"{d['property_id']}  {c['evaluations']:>7,} / {c['distinct_nontrivial']:>7,} / {d['wall_s']:.0f} s   tier={d['tier']} seed={d['seed']}".replace(",", " "))

#!/usr/bin/env python3
"""tools/mkmutant.py <name> <file relative to /repo> <old text> <new text>  -> mutants/<name>.patch"""
import difflib, os, sys
name, rel, old, new = sys.argv[1:5]
src = open(os.path.join("/repo", rel)).read()
assert src.count(old) == 1, f"{rel}: pattern occurs {src.count(old)}x"
mut = src.replace(old, new)
diff = "".join(difflib.unified_diff(src.splitlines(True), mut.splitlines(True), "a/" + rel, "b/" + rel))
open(os.path.join(os.path.dirname(os.path.dirname(os.path.abspath(__file__))), "mutants", name + ".patch"), "w").write(diff)
print("wrote", name)

#!/usr/bin/env python3
"""Rewrite the 'quick volume' column of DESIGN.md section 0.4 from evidence/*.json (run after a quiet quick sweep)."""
import json, os, re
root = os.path.join(os.path.dirname(__file__), "..")
p = os.path.join(root, "DESIGN.md")
s = open(p).read()
n = 0
for k in range(1, 21):
    pid = f"C{k:02d}"
    d = json.load(open(os.path.join(root, "evidence", pid + ".json")))
    c = d["coverage"]
    vol = f"{c['evaluations']:,} / {c['distinct_nontrivial']:,} / {d['wall_s']:.0f} s".replace(",", " ")
    pat = re.compile(r"^(\| %s \| .*? \| )[^|]*( \|)$" % pid, re.M)
    s, m = pat.subn(lambda mo: mo.group(1) + vol + mo.group(2), s, count=1)
    n += m
open(p, "w").write(s)
print("updated", n, "rows")

#!/usr/bin/env python3
"""Regenerates MANIFEST.json from tools/manifest_src.py-style table below (kept in one place so the
manifest stays valid at all times)."""
import json, os, sys
HERE = os.path.dirname(os.path.dirname(os.path.abspath(__file__)))
sys.path.insert(0, HERE)
from tools.manifest_table import CHECKS, NOT_APPLICABLE  # noqa

PY = "/venv/bin/python"
checks = []
for pid, c in sorted(CHECKS.items()):
    checks.append({
        "property_id": pid,
        "quick_cmd": f"{PY} -m hxv {pid} --tier quick",
        "thorough_cmd": f"{PY} -m hxv {pid} --tier thorough",
        "evidence_file": f"/verif/evidence/{pid}.json",
        "replay_cmd_template": f"{PY} -m hxv {pid} --replay {{path}}",
        "engine": c.get("engine", "hypothesis"),
        "level_claimed": {"category": "exploration", "text": c["level"], "design_ref": c["ref"]},
        "level_note": c["note"],
        "technique": c["technique"],
    })
doc = {
    "version": 1,
    "setup_cmd": "/venv/bin/python -c 'import hypothesis' 2>/dev/null || /venv/bin/pip install --no-index --find-links /opt/veriftools/wheels hypothesis",
    "hooks": {
        "guard": "HEXITAL_VERIF",
        "enable": "no source hooks are needed: every observation is made from outside (public attributes, per-candle dicts, sys.settrace, TZ env); checks import hexital from HEXITAL_SRC (default /repo)",
        "baseline_off_cmd": "cd /repo && /venv/bin/python -m pytest -ra -q -p no:cacheprovider --timeout=900 --continue-on-collection-errors",
        "source_commits": [],
        "add_only": True,
    },
    "engines": [
        {"name": "hypothesis", "path": "/verif/hxv", "serves_properties": sorted(CHECKS), "kind_free_text": "Hypothesis 6.168 strategies producing JSON cases (stream x config x schedule / operation programs), sharded over 16 processes; explicit oracle per property (reference model, twin, metamorphic relation, invariant)"},
    ],
    "checks": checks,
    "notes": "python -m hxv <id> --tier quick|thorough [--seed N]; VERIF_SEED/VERIF_TIER honoured; exit 0 held / 1 VIOLATION lines / 2 harness error. known_findings.json lists open findings (KNOWN-FINDING lines) and fixed ones.",
    "not_applicable": NOT_APPLICABLE,
}
json.dump(doc, open(os.path.join(HERE, "MANIFEST.json"), "w"), indent=1)
print("MANIFEST.json:", len(checks), "checks,", len(NOT_APPLICABLE), "not applicable")

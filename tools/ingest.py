#!/usr/bin/env python3
"""tools/ingest.py <worktree-prefix e.g. /tmp/seed3_> <prop> [...]: copy <prefix><prop>/_seed/<k>/ to the next free
seeded/<prop>-<n>/, remove the git worktree, register the seed in mutants/EXPECT.json, print the new ids."""
import json, os, shutil, subprocess, sys
HERE = os.path.dirname(os.path.dirname(os.path.abspath(__file__)))
prefix, props = sys.argv[1], sys.argv[2:]
exp_path = os.path.join(HERE, "mutants", "EXPECT.json")
exp = json.load(open(exp_path))
new = []
for p in props:
    wt = prefix + p
    src = os.path.join(wt, "_seed")
    if not os.path.isdir(src):
        print("no _seed in", wt, file=sys.stderr)
        continue
    have = [int(d.split("-")[1]) for d in os.listdir(os.path.join(HERE, "seeded")) if d.startswith(p + "-") and d.split("-")[1].isdigit()]
    n = max(have, default=0)
    for k in sorted(os.listdir(src)):
        d = os.path.join(src, k)
        if not (os.path.isfile(os.path.join(d, "patch.diff")) and os.path.isfile(os.path.join(d, "demo.py"))):
            continue
        n += 1
        dst = os.path.join(HERE, "seeded", f"{p}-{n}")
        shutil.copytree(d, dst)
        exp[f"seeded/{p}-{n}"] = [p]
        new.append(f"seeded/{p}-{n}")
    subprocess.run(["git", "-C", "/repo", "worktree", "remove", "--force", wt], capture_output=True)
json.dump(exp, open(exp_path, "w"), indent=1)
print(" ".join(new))

#!/usr/bin/env python3
"""Mutant campaign: for each patch, copy /repo to a scratch dir, apply it, (optionally) confirm the repo
suite is still green, run the named quick checks against the copy, and record exit codes.
usage: tools/campaign.py [--tests] [--props C01,C02] patch-or-seed-dir [...]      (props default: EXPECT.json)
Writes a line per (patch, property); nothing under /verif/evidence or /verif/replay is touched."""
import json, os, shutil, subprocess, sys, tempfile
HERE = os.path.dirname(os.path.dirname(os.path.abspath(__file__)))
args = sys.argv[1:]
tests = "--tests" in args
if tests: args.remove("--tests")
harvest = "--harvest" in args   # keep up to 2 shrunk killing inputs per (patch, property) as replay/<prop>/regress-*.json
if harvest: args.remove("--harvest")
props_override = None
if "--props" in args:
    i = args.index("--props"); props_override = args[i + 1].split(","); del args[i:i + 2]
expect = json.load(open(os.path.join(HERE, "mutants", "EXPECT.json"))) if os.path.exists(os.path.join(HERE, "mutants", "EXPECT.json")) else {}
rows = []
for item in args:
    patch = os.path.join(item, "patch.diff") if os.path.isdir(item) else item
    key = os.path.relpath(os.path.abspath(item), HERE)
    props = props_override or expect.get(key) or []
    work = tempfile.mkdtemp(prefix="hxcamp.", dir="/var/tmp")
    try:
        repo = os.path.join(work, "repo")
        shutil.copytree("/repo", repo, ignore=shutil.ignore_patterns(".git", "__pycache__", ".pytest_cache"))
        r = subprocess.run(["patch", "-p1", "-s", "-i", os.path.abspath(patch)], cwd=repo, capture_output=True, text=True)
        if r.returncode:
            print(f"{key}: PATCH-FAILED {r.stdout[:200]}"); rows.append((key, "-", "patch-failed")); continue
        suite = ""
        if tests:
            t = subprocess.run(["/venv/bin/python", "-m", "pytest", "-q", "-p", "no:cacheprovider", "-x"], cwd=repo, env=dict(os.environ, PYTHONPATH=repo), capture_output=True, text=True)
            suite = t.stdout.strip().splitlines()[-1] if t.stdout.strip() else "?"
        for p in props:
            out = os.path.join(work, "out")
            env = dict(os.environ, HEXITAL_SRC=repo, HXV_OUT=out)
            c = subprocess.run(["/venv/bin/python", "-m", "hxv", p, "--tier", "quick"], cwd=HERE, env=env, capture_output=True, text=True)
            sigs = [l.split("signature=")[1].split(" seen=")[0] for l in c.stdout.splitlines() if "signature=" in l]
            verdict = {0: "MISSED", 1: "caught", 2: "HARNESS-ERROR"}.get(c.returncode, str(c.returncode))
            if harvest and c.returncode == 1:
                rdir = os.path.join(out, "replay", p)
                tag = os.path.basename(key.rstrip("/")).replace(".patch", "")[:40]
                files = sorted(os.listdir(rdir), key=lambda f: os.path.getsize(os.path.join(rdir, f)))[:2] if os.path.isdir(rdir) else []
                os.makedirs(os.path.join(HERE, "replay", p), exist_ok=True)
                for n, f in enumerate(files):
                    doc = json.load(open(os.path.join(rdir, f)))
                    doc["killed"] = key
                    json.dump(doc, open(os.path.join(HERE, "replay", p, f"regress-{tag}-{n}.json"), "w"), indent=1)
            shutil.rmtree(out, ignore_errors=True)
            print(f"{key}: {p} {verdict} {('suite: ' + suite) if suite else ''} {sigs[:3]}", flush=True)
            rows.append((key, p, verdict))
    finally:
        shutil.rmtree(work, ignore_errors=True)
missed = [r for r in rows if r[2] not in ("caught",)]
print(f"SUMMARY {len(rows)} runs, {len(rows) - len(missed)} caught, not caught: {missed}")

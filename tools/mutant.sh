#!/bin/bash
# usage: tools/mutant.sh <patch-file> <prop>[,<prop>...] [--no-tests] [extra hxv args]
# Copies /repo to a scratch dir outside /repo and /verif, applies the patch, confirms the repo's
# own suite is still green (unless --no-tests), runs the named quick checks against the copy
# (HEXITAL_SRC), reports exit codes, and removes the copy.  Replay/evidence output of the mutant
# run goes to a scratch VERIF copy? No: runner writes under /verif; we clean replay files after.
set -u
patch=$(realpath "$1"); props=$2; shift 2
tests=1; if [ "${1:-}" = "--no-tests" ]; then tests=0; shift; fi
work=$(mktemp -d /var/tmp/hxmut.XXXXXX)
trap 'rm -rf "$work"' EXIT
cp -r /repo "$work/repo"; rm -rf "$work/repo/.git"
( cd "$work/repo" && patch -p1 -s < "$patch" ) || { echo "PATCH-FAILED"; exit 3; }
if [ $tests = 1 ]; then
  ( cd "$work/repo" && PYTHONPATH="$work/repo" /venv/bin/python -m pytest -q -p no:cacheprovider -x 2>&1 | tail -2 )
fi
cd /verif
for p in ${props//,/ }; do
  before=$(ls replay/$p 2>/dev/null | sort)
  cp evidence/$p.json "$work/$p.ev" 2>/dev/null
  HEXITAL_SRC="$work/repo" /venv/bin/python -m hxv $p --tier quick "$@" 2>&1 | grep -v '^  signature' | cut -c1-300 | head -20
  echo "MUTANT $(basename $patch) $p rc=${PIPESTATUS[0]}"
  # remove replay files created by the mutant run, restore evidence
  for f in $(ls replay/$p 2>/dev/null); do echo "$before" | grep -qx "$f" || rm -f replay/$p/$f; done
  [ -f "$work/$p.ev" ] && cp "$work/$p.ev" evidence/$p.json
done

#!/usr/bin/env python3
"""Independent confirmation of every seeded change under seeded/<id>/ and of which checks catch it.
For each: demo.py on unchanged /repo must exit 0; with patch.diff applied to a scratch copy the repo suite must
report 325 passed and demo.py must exit non-zero; then the expected quick checks run against the copy.
Writes seeded/<id>/verified.json (unless --dry) and prints a table."""
import json, os, shutil, subprocess, sys, tempfile
HERE = os.path.dirname(os.path.dirname(os.path.abspath(__file__)))
expect = json.load(open(os.path.join(HERE, "mutants", "EXPECT.json")))
only = [a for a in sys.argv[1:] if not a.startswith("--")]
dry = "--dry" in sys.argv
for name in sorted(os.listdir(os.path.join(HERE, "seeded"))):
    if only and name not in only:
        continue
    sd = os.path.join(HERE, "seeded", name)
    if not os.path.exists(os.path.join(sd, "patch.diff")):
        continue
    work = tempfile.mkdtemp(prefix="hxver.", dir="/var/tmp")
    rec = {"seed": name, "property": name.split("-")[0]}
    try:
        repo = os.path.join(work, "repo")
        shutil.copytree("/repo", repo, ignore=shutil.ignore_patterns(".git", "__pycache__", ".pytest_cache"))
        env0 = dict(os.environ, PYTHONPATH="/repo")
        rec["demo_on_unchanged_repo_rc"] = subprocess.run(["/venv/bin/python", os.path.join(sd, "demo.py")], cwd="/repo", env=env0, capture_output=True, timeout=900).returncode
        ap = subprocess.run(["patch", "-p1", "-s", "-i", os.path.join(sd, "patch.diff")], cwd=repo, capture_output=True, text=True)
        rec["patch_applies"] = ap.returncode == 0
        if ap.returncode == 0:
            env1 = dict(os.environ, PYTHONPATH=repo)
            t = subprocess.run(["/venv/bin/python", "-m", "pytest", "-q", "-p", "no:cacheprovider"], cwd=repo, env=env1, capture_output=True, text=True)
            rec["suite_with_patch"] = t.stdout.strip().splitlines()[-1] if t.stdout.strip() else "?"
            rec["demo_with_patch_rc"] = subprocess.run(["/venv/bin/python", os.path.join(sd, "demo.py")], cwd=repo, env=env1, capture_output=True, timeout=900).returncode
            rec["checks"] = {}
            for p in expect.get("seeded/" + name, [name.split("-")[0]]):
                c = subprocess.run(["/venv/bin/python", "-m", "hxv", p, "--tier", "quick"], cwd=HERE, env=dict(os.environ, HEXITAL_SRC=repo, HXV_OUT=os.path.join(work, "out")), capture_output=True, text=True)
                sigs = sorted({l.split("signature=")[1].split(" seen=")[0] for l in c.stdout.splitlines() if "signature=" in l})
                rec["checks"][p] = {"exit": c.returncode, "verdict": {0: "missed", 1: "caught", 2: "harness-error"}.get(c.returncode, "?"), "signatures": sigs[:6]}
        rec["confirmed"] = rec.get("demo_on_unchanged_repo_rc") == 0 and rec.get("patch_applies") and "325 passed" in rec.get("suite_with_patch", "") and rec.get("demo_with_patch_rc", 0) != 0
        rec["ran"] = "tools/verify_seeds.py: demo on /repo; scratch copy + patch: pytest, demo, `python -m hxv <prop> --tier quick` with HEXITAL_SRC=<copy>"
        if not dry:
            json.dump(rec, open(os.path.join(sd, "verified.json"), "w"), indent=1)
        print(name, "confirmed" if rec["confirmed"] else "NOT-CONFIRMED", {p: v["verdict"] for p, v in rec.get("checks", {}).items()}, rec.get("suite_with_patch"), flush=True)
    finally:
        shutil.rmtree(work, ignore_errors=True)

#!/usr/bin/env python3
"""Merges seeded/<id>/verified.json into meta.json (key "verification": what was run and what it showed) and
writes seeded/INDEX.md (one line per seeded change: property, summary, what it needs, which checks catch it)."""
import json, os
HERE = os.path.dirname(os.path.dirname(os.path.abspath(__file__)))
rows = []
for name in sorted(os.listdir(os.path.join(HERE, "seeded")), key=lambda s: (s.split("-")[0], int(s.split("-")[1]) if "-" in s and s.split("-")[1].isdigit() else 0)):
    d = os.path.join(HERE, "seeded", name)
    mp, vp = os.path.join(d, "meta.json"), os.path.join(d, "verified.json")
    if not os.path.isfile(mp):
        continue
    meta = json.load(open(mp))
    if os.path.isfile(vp):
        v = json.load(open(vp))
        meta["verification"] = {k: v[k] for k in ("demo_on_unchanged_repo_rc", "patch_applies", "suite_with_patch", "demo_with_patch_rc", "checks", "confirmed", "ran") if k in v}
        json.dump(meta, open(mp, "w"), indent=1)
    ver = meta.get("verification", {})
    caught = ", ".join(f"{p} ({c['verdict']})" for p, c in ver.get("checks", {}).items()) or "not yet verified"
    rows.append(f"| {name} | {meta.get('property', name.split('-')[0])} | {str(meta.get('summary', '')).replace('|', '/')[:220]} | {str(meta.get('needs', '')).replace('|', '/')[:220]} | {'yes' if ver.get('confirmed') else '?'} | {caught} |")
with open(os.path.join(HERE, "seeded", "INDEX.md"), "w") as fh:
    fh.write("# Seeded changes\n\nEach directory holds patch.diff, demo.py, meta.json (with the independent verification merged in) and verified.json.\n`confirmed` = demo exits 0 on /repo, and with the patch the repo suite reports 325 passed and the demo fails.\n\n| id | property | change | needs | confirmed | quick checks run against it |\n|----|----------|--------|-------|-----------|-----------------------------|\n")
    fh.write("\n".join(rows) + "\n")
print(len(rows), "seeds indexed")

from common import *
import collections, traceback
res=collections.defaultdict(list)
def full(ind): return [(copy.deepcopy(c.indicators),copy.deepcopy(c.sub_indicators)) for c in ind.candles]
s=mk_stream(40,2)
for name,mk in ALL.items():
    if name in('RSI',): continue
    try:
        a=mk(candles=copy.deepcopy(s)); a.calculate(); base=full(a)
        a.calculate()
        if full(a)!=base: res['calc_idem'].append(name)
        a.recalculate()
        if full(a)!=base: res['recalc'].append(name)
        a.purge(); left=[(i,k) for i,c in enumerate(a.candles) for k in list(c.indicators)+list(c.sub_indicators)]
        if left: res['purge_left'].append((name,sorted(set(k for _,k in left))))
        try:
            a.calculate()
            if full(a)!=base: res['after_purge_calc_diff'].append(name)
        except Exception as e: res['after_purge_calc_exc'].append((name,type(e).__name__,str(e)[:60]))
        # calc index
        for idx in (-1, len(s)-1, 20, -20):
            a=mk(candles=copy.deepcopy(s)); a.calculate(); base=full(a)
            try:
                a.calculate_index(idx)
                now=full(a)
                if now!=base:
                    i=next(i for i,(x,y) in enumerate(zip(now,base)) if x!=y)
                    res[f'calcidx({idx})'].append((name,i,[ (k,base[i][0].get(k),now[i][0].get(k)) for k in base[i][0] if base[i][0].get(k)!=now[i][0].get(k)][:1],[ (k,base[i][1].get(k),now[i][1].get(k)) for k in base[i][1] if base[i][1].get(k)!=now[i][1].get(k)][:2]))
                a.calculate()
                if full(a)!=base: res[f'calcidx({idx})+calc still diff'].append(name)
            except Exception as e:
                tb=traceback.extract_tb(e.__traceback__)[-1]
                res[f'calcidx({idx}) exc'].append((name,type(e).__name__,str(e)[:50],tb.filename.split('/')[-1],tb.lineno))
    except Exception as e:
        res['EXC'].append((name,repr(e)[:100]))
for k,v in res.items():
    print('==',k,len(v))
    for x in v: print('    ',str(x)[:260])

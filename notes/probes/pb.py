from common import *
from bounded import *
import collections
r=random.Random(5)
def gstream(n,mag=100):
    t=datetime(2023,6,1,9,0); out=[]; p=mag+r.randint(0,40)*0.25; mode='walk'
    for i in range(n):
        if r.random()<0.12: mode=r.choice(['walk','walk','flat','up','down'])
        if mode=='flat': o=h=l=c=p
        else:
            o=p; c=max(0.25,p+(r.randint(1,6) if mode=='up' else -r.randint(1,6) if mode=='down' else r.randint(-6,6))*0.25)
            h=max(o,c)+r.randint(0,4)*0.25; l=max(0.25,min(o,c)-r.randint(0,4)*0.25); l=min(l,o,c)
        t+=timedelta(minutes=1); out.append(Candle(o,h,l,c,r.randint(0,9),timestamp=t)); p=c
    return out
stats=collections.defaultdict(lambda:[0,0,0.0,0])  # n, fail, max ratio, inf
def rec(name,impl,ref):
    st=stats[name]
    for a,b in zip(impl,ref):
        if a is None or b is None:
            if (a is None)!=(b is None): st[1]+=1
            continue
        st[0]+=1
        if b.e==INF: st[3]+=1; continue
        if not ok(a,b): st[1]+=1
        if b.e>0: st[2]=max(st[2],abs(a-b.v)/(2*b.e))
for it in range(150):
    s=gstream(r.randint(30,200), r.choice([1,100,10000])); p=r.randint(2,12)
    c=[B(x.close) for x in s]; h=[B(x.high) for x in s]; l=[B(x.low) for x in s]
    for rv in (4,r.randint(0,7)):
        a=I.EMA(candles=copy.deepcopy(s),period=p,round_value=rv); a.calculate(); rec('EMA',a.as_list(),ema(c,p,rv))
        a=I.SMA(candles=copy.deepcopy(s),period=p,round_value=rv); a.calculate(); rec('SMA',a.as_list(),sma(c,p,rv))
    # TSI
    m=[None]+[c[i]-c[i-1] for i in range(1,len(c))]; am=[None if v is None else abs(v) for v in m]
    sp=int(p/2)+(p%2>0)
    num=ema(ema(m,p),sp); den=ema(ema(am,p),sp)
    ref=[ (100*(u/v)).store(4) if u is not None and v is not None else None for u,v in zip(num,den)]
    a=I.TSI(candles=copy.deepcopy(s),period=p); a.calculate()
    impl=a.as_list()
    # impl None when den==0 -> skip those
    ref=[None if (i is None and rf is not None and rf.e==INF) else rf for i,rf in zip(impl,ref)]
    impl=[None if rf is None else i for i,rf in zip(impl,ref)]
    rec('TSI',impl,ref)
    # ATR, KC
    tr=[None]+[bmax(h[i]-l[i],abs(h[i]-c[i-1]),abs(l[i]-c[i-1])).store(4) for i in range(1,len(c))]
    atr=wilder(tr,p)
    a=I.ATR(candles=copy.deepcopy(s),period=p); a.calculate(); rec('ATR',a.as_list(),atr)
    e=ema(c,p)
    a=I.KC(candles=copy.deepcopy(s),period=p,multiplier=1.5); a.calculate()
    rec('KC.upper',[d['upper'] for d in a.as_list()],[ (x+1.5*y).store(4) if x is not None and y is not None else None for x,y in zip(e,atr)])
    # MACD
    ef=ema(c,p); es=ema(c,p+4); line=[ (x-y) if x is not None and y is not None else None for x,y in zip(ef,es)]
    lstored=[None if v is None else v.store(4) for v in line]
    sig=ema(lstored,3)
    a=I.MACD(candles=copy.deepcopy(s),fast_period=p,slow_period=p+4,signal_period=3); a.calculate()
    rec('MACD.signal',[d['signal'] for d in a.as_list()],sig)
    rec('MACD.hist',[d['histogram'] for d in a.as_list()],[ (x-y).store(4) if x is not None and y is not None else None for x,y in zip(line,sig)])
for k,v in stats.items(): print(k,'points',v[0],'fails',v[1],'max |diff|/tol',round(v[2],3),'illcond',v[3])
print('---- TSI detail')
r=random.Random(5); cnt=collections.Counter()
for it in range(150):
    s=gstream(r.randint(30,200), r.choice([1,100,10000])); p=r.randint(2,12)
    c=[B(x.close) for x in s]
    for rv in (4,r.randint(0,7)): pass
    m=[None]+[c[i]-c[i-1] for i in range(1,len(c))]; am=[None if v is None else abs(v) for v in m]
    sp=int(p/2)+(p%2>0)
    num=ema(ema(m,p),sp); den=ema(ema(am,p),sp)
    a=I.TSI(candles=copy.deepcopy(s),period=p); a.calculate(); impl=a.as_list()
    for i,(x,u,v) in enumerate(zip(impl,num,den)):
        if (x is None)!=(u is None):
            cnt[('impl None' if x is None else 'ref None', 'den=%.5f e=%.5f'%(v.v,v.e) if v is not None else None)]+=1
            if len(cnt)<6: print(it,p,i,x,u and (u.v,u.e), v and (v.v,v.e), a.candles[i].sub_indicators)
print(cnt.most_common(8))

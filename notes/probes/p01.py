from common import *
from hexital.analysis import MOVEMENT_MAP, PATTERN_MAP
from hexital.indicators import Amorph
import collections, traceback, inspect
r=random.Random(99)
def gstream(n, ts='regular', tfsec=300):
    t=datetime(2023,6,1,9,0)+timedelta(seconds=r.choice([0,1,tfsec//2,tfsec-1])); out=[]; p=r.randint(5,400); mode='walk'
    for i in range(n):
        if r.random()<0.15: mode=r.choice(['walk','flat','up','down','zerovol','walk'])
        if mode=='flat': o=h=l=c=p; v=r.choice([0,3])
        else:
            o=p; c=max(1,p+(r.randint(1,3) if mode=='up' else -r.randint(1,3) if mode=='down' else r.randint(-3,3)))
            h=max(o,c)+r.randint(0,2); l=max(1,min(o,c)-r.randint(0,2)); l=min(l,o,c); v=0 if mode=='zerovol' else r.randint(0,5)
        if ts=='none': tt=None
        else:
            step=tfsec//3
            d={'regular':step,'jitter':r.choice([0,1,step,step,2*step,7*step]),'gappy':r.choice([step]*8+[tfsec*r.randint(2,9)])}[ts]
            t+=timedelta(seconds=d); tt=t
        out.append(Candle(float(o),float(h),float(l),float(c),v,timestamp=tt)); p=c
    return out
def wrappers():
    out={}
    for nm,f in {**PATTERN_MAP,**MOVEMENT_MAP}.items():
        sig=inspect.signature(f).parameters; kw={}
        if 'indicator' in sig: kw['indicator']='close'
        if 'indicator_one' in sig: kw['indicator_one']='close'; kw['indicator_two']='open'
        if 'length' in sig: kw['length']=3
        out['A:'+nm]=(lambda f=f,kw=kw: (lambda **k: Amorph(analysis=f,**kw,**k)))()
    return out
REG=dict(ALL); REG.update(wrappers())
res=collections.defaultdict(collections.Counter); ex={}
N=0
for it in range(400):
    ts=r.choice(['none','regular','jitter','gappy']); tf=None if ts=='none' else r.choice([None,'T5','T5'])
    fill=bool(tf) and r.random()<0.4
    n=r.randint(1,45); s=gstream(n,ts)
    # schedule
    pre=r.choice([0,0,1,2,r.randint(0,n)]); chunks=[]; i=pre
    while i<n:
        k=r.choice([1,1,1,2,3,7]); chunks.append((i,min(n,i+k))); i+=k
    cut=r.randint(1,n)
    for name,mk in REG.items():
        if name in('RSI','STOCH','VWMA','STDEV','BBANDS','STDEVTHRES','A:cross'): continue
        cfg=dict(timeframe=tf,timeframe_fill=fill) if tf else {}
        N+=1
        try:
            b=mk(candles=copy.deepcopy(s),**cfg); b.calculate(); sb=snap(b)
            a=mk(candles=copy.deepcopy(s[:pre]),**cfg)
            if r.random()<0.5: a.calculate()
            for (x,y) in chunks: a.append(copy.deepcopy(s[x:y]))
            if not chunks: a.calculate()
            sa=snap(a)
            if sa!=sb:
                i=next((i for i,(x,y) in enumerate(zip(sa,sb)) if x!=y),None); res[name]['C01']+=1; ex.setdefault((name,'C01'),(ts,tf,fill,n,pre,i))
            # prefix
            p=mk(candles=copy.deepcopy(s[:cut]),**cfg); p.calculate(); sp=snap(p)
            closed=sp if not tf else sp[:-1]
            if sb[:len(closed)]!=closed:
                i=next((i for i,(x,y) in enumerate(zip(closed,sb)) if x!=y),None); res[name]['C02b']+=1; ex.setdefault((name,'C02b'),(ts,tf,fill,n,cut,i))
        except Exception as e:
            tb=traceback.extract_tb(e.__traceback__)[-1]; res[name]['EXC:'+type(e).__name__+':'+tb.filename.split('/')[-1]+':'+str(tb.lineno)]+=1
print('cases',N)
for k,v in res.items(): print(k,dict(v))
for k,v in ex.items(): print(k,v)

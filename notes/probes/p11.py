import os,time
os.environ['TZ']='UTC'; time.tzset()
from common import *
from e3 import ref_collapse, gen
from hexital.utils.timeframe import timeframe_to_timedelta
def ha_ref(rows):
    out=[]
    for i,(o,h,l,c) in enumerate(rows):
        hc=(o+h+l+c)/4; ho=(o+c)/2 if i==0 else (out[-1][0]+out[-1][3])/2
        out.append((ho,max(h,ho,hc),min(l,ho,hc),hc))
    return out
r=random.Random(4); bad=0; n_=0; exb=None
for it in range(1500):
    n=r.randint(1,25); cs=gen(r,n); tfn=r.choice([None,'T1','T5','S30','H1']); fill=bool(tfn) and r.random()<0.3
    raw=ref_collapse(cs,timeframe_to_timedelta(tfn),fill) if tfn else [(c.timestamp,c.open,c.high,c.low,c.close,c.volume) for c in cs]
    if len(raw)>500: continue
    exp=ha_ref([x[1:5] for x in raw])
    pre=r.choice([0,1,2,r.randint(0,n)])
    kw=dict(timeframe=tfn,timeframe_fill=fill) if tfn else {}
    a=I.EMA(candles=copy.deepcopy(cs[:pre]),period=3,candlestick_type='HA',**kw); 
    if r.random()<0.5: a.calculate()
    i=pre
    try:
        while i<n:
            k=r.choice([1,1,2,5]); a.append(copy.deepcopy(cs[i:i+k])); i+=k
        got=[(c.open,c.high,c.low,c.close) for c in a.candles]
        clean=[(c.clean_values.get('open'),c.clean_values.get('high'),c.clean_values.get('low'),c.clean_values.get('close'),c.clean_values.get('volume')) for c in a.candles]
        ok=len(got)==len(exp) and all(abs(x-y)<=1e-9*max(1,abs(y)) for g,e in zip(got,exp) for x,y in zip(g,e)) and clean==[x[1:] for x in raw]
    except Exception as e:
        ok=False; got=repr(e)
    n_+=1
    if not ok:
        bad+=1
        if exb is None: exb=(tfn,fill,pre,n,got if isinstance(got,str) else None)
print('cases',n_,'bad',bad,exb)

import random, math, copy
from datetime import datetime, timedelta
from hexital import Candle
from hexital import indicators as I
from hexital.core.hexital import Hexital

def mk_stream(n, seed=0, step=60, start=datetime(2023,6,1,9,0,0), jitter=False, flat=0.0):
    r = random.Random(seed)
    out=[]; p=100.0; t=start
    for i in range(n):
        if r.random()<flat:
            o=h=l=c=p; v=0
        else:
            o=p; c=max(1.0, round(p+r.uniform(-3,3),2)); h=round(max(o,c)+r.uniform(0,2),2); l=round(max(0.5,min(o,c)-r.uniform(0,2)),2); v=r.randint(0,1000)
        t = t + timedelta(seconds=step if not jitter else r.choice([0,1,step,step*2,step*7]))
        out.append(Candle(o,h,l,c,v,timestamp=t)); p=c
    return out

ALL = {
 'ADX': lambda **k: I.ADX(period=3, **k),
 'AROON': lambda **k: I.AROON(period=4, **k),
 'ATR': lambda **k: I.ATR(period=3, **k),
 'BBANDS': lambda **k: I.BBANDS(period=4, **k),
 'Counter': lambda **k: I.Counter(input_value='positive', **k),
 'Donchian': lambda **k: I.Donchian(period=4, **k),
 'EMA': lambda **k: I.EMA(period=3, **k),
 'HL': lambda **k: I.HighestLowest(period=4, **k),
 'HLA': lambda **k: I.HighLowAverage(**k),
 'HMA': lambda **k: I.HMA(period=5, **k),
 'KC': lambda **k: I.KC(period=3, **k),
 'MACD': lambda **k: I.MACD(fast_period=2, slow_period=4, signal_period=3, **k),
 'OBV': lambda **k: I.OBV(**k),
 'RMA': lambda **k: I.RMA(period=3, **k),
 'ROC': lambda **k: I.ROC(period=3, **k),
 'RSI': lambda **k: I.RSI(period=3, **k),
 'SMA': lambda **k: I.SMA(period=3, **k),
 'STDEV': lambda **k: I.StandardDeviation(period=4, **k),
 'STDEVTHRES': lambda **k: I.StandardDeviationThreshold(period=4, **k),
 'STOCH': lambda **k: I.STOCH(period=4, **k),
 'Supertrend': lambda **k: I.Supertrend(period=3, **k),
 'TR': lambda **k: I.TR(**k),
 'TSI': lambda **k: I.TSI(period=4, **k),
 'VWAP': lambda **k: I.VWAP(**k),
 'VWMA': lambda **k: I.VWMA(period=3, **k),
 'WMA': lambda **k: I.WMA(period=3, **k),
}
def snap(ind):
    return [(c.timestamp,c.open,c.high,c.low,c.close,c.volume,copy.deepcopy(c.indicators),copy.deepcopy(c.sub_indicators)) for c in ind.candles]

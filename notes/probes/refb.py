"""bounded reference definitions (prototype)"""
from bounded import *
ANY='ANY'
def S(x,r=4): return None if x is None else x.store(r)
def Sl(xs,r=4): return [S(x,r) for x in xs]
def rma(x,p,r=4):
    out=[None]*len(x); s=first_full(x,p)
    if s is None: return out
    a=1.0/p; num=B(0); den=0.0
    for k in range(p): num=num+((1-a)**k)*x[s-k]; den+=(1-a)**k
    out[s]=(num/den).store(r)
    for i in range(s+1,len(x)): out[i]=(a*x[i]+(1-a)*out[i-1]).store(r)
    return out
def wma(x,p,r=4):
    out=[None]*len(x)
    for i in range(len(x)):
        if i-p+1<0 or any(v is None for v in x[i-p+1:i+1]): continue
        acc=B(0)
        for k in range(p): acc=acc+x[i-p+1+k]*(k+1)
        out[i]=(acc/(p*(p+1)/2)).store(r)
    return out
def tr(h,l,c,r=4):
    return [None]+[bmax(h[i]-l[i],abs(h[i]-c[i-1]),abs(l[i]-c[i-1])).store(r) for i in range(1,len(h))]
def atr(h,l,c,p,r=4): return wilder(tr(h,l,c),p,r)
def stdev(x,p,r=4):
    out=[None]*len(x)
    for i in range(len(x)):
        if i-p+1<0 or any(v is None for v in x[i-p+1:i+1]): continue
        w=x[i-p+1:i+1]; m=B(0)
        for v in w: m=m+v
        m=m/p; var=B(0)
        for v in w: var=var+(v-m)*(v-m)
        var=var/p
        # running-update drift in impl: allow float cancellation slack relative to magnitude^2
        mag=max(abs(v.v) for v in w)
        var=B(var.v, var.e+1e-9*mag*mag)
        out[i]=var.sqrt().store(r)
    return out
def rsi(x,p,r=4):
    n=len(x); out=[None]*n
    if n<p+1: return out
    g=B(0); lo=B(0)
    for i in range(1,p+1):
        d=x[i]-x[i-1]
        g=g+bmax(d,0); lo=lo+bmax(-d,0)
    g=g/p; lo=lo/p
    def val(g,lo):
        if lo.v==0 and lo.e==0: return ANY if g.v==0 else B(100.0).store(r)
        rs=g/lo
        if rs.e==INF: return B(0,INF)
        return (100.0-(100.0/(1.0+rs))).store(r)
    out[p]=val(g,lo)
    for i in range(p+1,n):
        d=x[i]-x[i-1]; g=(g*(p-1)+bmax(d,0))/p; lo=(lo*(p-1)+bmax(-d,0))/p; out[i]=val(g,lo)
    return out
def stoch(h,l,c,p,k,d,r=4):
    n=len(c); st=[None]*n
    for i in range(p-1,n):
        hh=bmax(*h[i-p+1:i+1]); ll=bmin(*l[i-p+1:i+1])
        st[i]=ANY if hh.v==ll.v else ((c[i]-ll)/(hh-ll)*100)
    def sm(x,q):
        out=[None]*len(x)
        for i in range(len(x)):
            if i-q+1<0 or any(v is None for v in x[i-q+1:i+1]): continue
            w=x[i-q+1:i+1]
            if any(v is ANY for v in w): out[i]=ANY; continue
            acc=B(0)
            for v in w: acc=acc+v
            out[i]=B((acc/q).v,(acc/q).e+ (i+1)*0.5e-4)  # running SMA drift
        return out
    kk=sm(st,k); dd=sm([ANY if v is ANY else (None if v is None else v) for v in kk],d)
    return st,kk,dd
def aroon(h,l,p):
    out=[]
    for i in range(len(h)):
        if i<p: out.append(None); continue
        wh=[v.v for v in h[i-p:i+1]]; wl=[v.v for v in l[i-p:i+1]]
        bh=min(k for k in range(p+1) if wh[p-k]==max(wh)); bl=min(k for k in range(p+1) if wl[p-k]==min(wl))
        u=(p-bh)/p*100; d=(p-bl)/p*100; out.append((B(u).store(4),B(d).store(4),B(u-d).store(4)))
    return out
def adx(h,l,c,p,ps,conv):
    n=len(h); pos=[None]*n; neg=[None]*n
    if conv=='zero' and n: pos[0]=B(0); neg[0]=B(0)
    for i in range(1,n):
        up=h[i].v-h[i-1].v; dn=l[i-1].v-l[i].v
        pos[i]=B(up if up>dn and up>0 else 0); neg[i]=B(dn if dn>up and dn>0 else 0)
    a=atr(h,l,c,p); rp=rma(pos,p); rn=rma(neg,p)
    dip=[None]*n; din=[None]*n; dx=[None]*n
    for i in range(n):
        if a[i] is None or rp[i] is None: continue
        if a[i].v==0 and a[i].e<=0.5e-4+1e-15 and False: pass
        dip[i]=100*rp[i]/a[i]; din[i]=100*rn[i]/a[i]
        s=dip[i]+din[i]
        dx[i]=B(0,INF) if (dip[i].e==INF or din[i].e==INF) else 100*abs(dip[i]-din[i])/s
    ad=rma(dx,ps)
    return [ (None if ad[i] is None else ad[i], None if dip[i] is None else dip[i].store(4), None if din[i] is None else din[i].store(4)) for i in range(n)]
def supertrend(h,l,c,p,mult):
    a=atr(h,l,c,p); out=[]; pu=pl=None; pdir=1; amb=None
    for i in range(len(h)):
        if a[i] is None: out.append(None); continue
        mid=(h[i]+l[i])/2; up=mid+mult*a[i]; lo=mid-mult*a[i]; d=1
        if pu is not None:
            g1=gt(c[i],pu); g2=gt(pl,c[i])
            if g1 is None or (g1 is False and g2 is None): amb=i; break
            if g1: d=1
            elif g2: d=-1
            else:
                d=pdir
                if d==1:
                    g=gt(pl,lo)
                    if g is None: lo=B((lo.v+pl.v)/2, abs(lo.v-pl.v)/2+max(lo.e,pl.e))
                    elif g: lo=pl
                if d==-1:
                    g=gt(up,pu)
                    if g is None: up=B((up.v+pu.v)/2, abs(up.v-pu.v)/2+max(up.e,pu.e))
                    elif g: up=pu
        pu,pl,pdir=up,lo,d
        out.append((d,(lo if d==1 else up).store(4)))
    return out,amb

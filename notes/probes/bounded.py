import math
INF=float('inf')
class B:
    __slots__=('v','e')
    def __init__(s,v,e=0.0):
        s.v=float(v); s.e=float(e)
        if s.e!=s.e or s.v!=s.v or s.v in (INF,-INF): s.e=INF; s.v=0.0 if s.v!=s.v or s.v in (INF,-INF) else s.v
    @staticmethod
    def of(x): return x if isinstance(x,B) else B(x)
    def store(s,r): return B(s.v, s.e+0.5*10**-r)
    def __add__(s,o): o=B.of(o); return B(s.v+o.v,s.e+o.e)
    __radd__=__add__
    def __sub__(s,o): o=B.of(o); return B(s.v-o.v,s.e+o.e)
    def __rsub__(s,o): return B.of(o)-s
    def __mul__(s,o): o=B.of(o); return B(s.v*o.v,abs(s.v)*o.e+abs(o.v)*s.e+s.e*o.e)
    __rmul__=__mul__
    def __truediv__(s,o):
        o=B.of(o)
        if abs(o.v)<=2*o.e: return B(s.v/o.v if o.v else 0.0, INF)
        return B(s.v/o.v,(abs(s.v)*o.e+abs(o.v)*s.e)/(abs(o.v)*(abs(o.v)-o.e)))
    def __rtruediv__(s,o): return B.of(o)/s
    def __neg__(s): return B(-s.v,s.e)
    def __abs__(s): return B(abs(s.v),s.e)
    def sqrt(s):
        v=max(s.v,0.0)
        if v<=s.e: return B(math.sqrt(v), math.sqrt(v+s.e))
        return B(math.sqrt(v), s.e/(2*math.sqrt(v-s.e)))
def bmax(*xs): xs=[B.of(x) for x in xs]; return B(max(x.v for x in xs),max(x.e for x in xs))
def bmin(*xs): xs=[B.of(x) for x in xs]; return B(min(x.v for x in xs),max(x.e for x in xs))
def gt(a,b):
    a=B.of(a);b=B.of(b)
    if abs(a.v-b.v)<=a.e+b.e and (a.e+b.e)>0: return None
    return a.v>b.v
def ok(impl,ref):
    if ref.e==INF: return True
    return abs(impl-ref.v)<=2*ref.e+1e-12*abs(ref.v)+1e-12
# series helpers: x lists of B or None
def first_full(x,p):
    run=0
    for i,v in enumerate(x):
        run=run+1 if v is not None else 0
        if run>=p: return i
def ema(x,p,r=4,smoothing=2.0):
    out=[None]*len(x); s=first_full(x,p)
    if s is None: return out
    a=smoothing/(p+1); acc=B(0)
    for k in range(p): acc=acc+x[s-k]
    out[s]=(acc/p).store(r)
    for i in range(s+1,len(x)): out[i]=(a*x[i]+(1-a)*out[i-1]).store(r)
    return out
def sma(x,p,r=4):
    out=[None]*len(x); s=first_full(x,p)
    if s is None: return out
    acc=B(0)
    for k in range(p): acc=acc+x[s-k]
    out[s]=(acc/p).store(r)
    for i in range(s+1,len(x)):
        # true value from window, error accumulates as running update
        acc=B(0)
        for k in range(p): acc=acc+x[i-k]
        tv=acc/p
        out[i]=B(tv.v, max(tv.e, out[i-1].e + (x[i].e+x[i-p].e)/p)+0.5*10**-r)
    return out
def wilder(x,p,r=4):
    out=[None]*len(x); s=first_full(x,p)
    if s is None: return out
    acc=B(0)
    for k in range(p): acc=acc+x[s-k]
    out[s]=(acc/p).store(r)
    for i in range(s+1,len(x)): out[i]=((out[i-1]*(p-1)+x[i])/p).store(r)
    return out

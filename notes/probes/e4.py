from common import *
import ref
def cmp(a,b,tol=1e-3):
    bad=[]
    for i,(x,y) in enumerate(zip(a,b)):
        if (x is None)!=(y is None): bad.append((i,x,y))
        elif x is not None and abs(x-y)>tol*max(1,abs(y)): bad.append((i,x,y))
    return bad
for seed in range(3):
    s=mk_stream(60,seed); close=[c.close for c in s]; vol=[c.volume for c in s]
    for p in [2,3,5,9,10,16]:
        for nm,mk,rf in [('SMA',I.SMA,lambda:ref.sma(close,p)),('EMA',I.EMA,lambda:ref.ema(close,p)),('RMA',I.RMA,lambda:ref.rma(close,p)),('WMA',I.WMA,lambda:ref.wma(close,p)),('HMA',I.HMA,lambda:ref.hma(close,p))]:
            try:
                ind=mk(candles=copy.deepcopy(s),period=p); ind.calculate(); got=ind.as_list()
                bad=cmp(got,rf())
            except Exception as e: bad=['EXC',repr(e)]
            if bad: print(seed,p,nm,bad[:4])
        try:
            ind=I.VWMA(candles=copy.deepcopy(s),period=p); ind.calculate(); bad=cmp(ind.as_list(),ref.vwma(close,vol,p))
        except Exception as e: bad=['EXC',repr(e)]
        if bad: print(seed,p,'VWMA',bad[:4])
# late-start input: EMA of SMA etc
print('--- late start')
for p in [3,5]:
  for q in [2,4,7]:
    s=mk_stream(60,1); close=[c.close for c in s]
    base=ref.sma(close,q)
    base_r=[round(v,4) if v is not None else None for v in base]
    for nm,mk,rf in [('SMA',I.SMA,ref.sma),('EMA',I.EMA,ref.ema),('RMA',I.RMA,ref.rma),('WMA',I.WMA,ref.wma),('HMA',I.HMA,ref.hma)]:
        cs=copy.deepcopy(s)
        b=I.SMA(candles=cs,period=q); b.calculate()
        try:
            ind=mk(candles=cs,period=p,input_value=b.name); ind.calculate(); got=ind.as_list()
            bad=cmp(got,rf(base_r,p))
        except Exception as e: bad=['EXC',repr(e)]
        if bad: print(p,q,nm,bad[:3])

from common import *
from hexital.core.candle_manager import CandleManager
def ha_ref(rows):
    out=[]
    for i,(o,h,l,c) in enumerate(rows):
        hc=(o+h+l+c)/4; ho=(o+c)/2 if i==0 else (out[-1][0]+out[-1][3])/2
        out.append((ho,max(h,ho,hc),min(l,ho,hc),hc))
    return out
def rows(cs): return [(c.open,c.high,c.low,c.close) for c in cs]
s=mk_stream(12,0)
exp=ha_ref(rows(s))
for pre in [0,1,2,5]:
    for chunk in [1,3]:
        a=I.EMA(candles=copy.deepcopy(s[:pre]),period=3,candlestick_type='HA')
        a.calculate()
        rest=copy.deepcopy(s[pre:]); i=0
        try:
            while i<len(rest): a.append(rest[i:i+chunk]); i+=chunk
            got=rows(a.candles)
            ok=all(abs(x-y)<1e-9 for g,e in zip(got,exp) for x,y in zip(g,e)) and len(got)==len(exp)
            bad=[i for i,(g,e) in enumerate(zip(got,exp)) if any(abs(x-y)>1e-9 for x,y in zip(g,e))]
            print('pre',pre,'chunk',chunk,'ok' if ok else ('BAD at',bad[:5]), 'tags',[c.tag for c in a.candles][:6])
        except Exception as e: print('pre',pre,'chunk',chunk,'EXC',repr(e)[:200])
# with timeframe
from e3 import ref_collapse

from common import *
import collections, traceback
res=collections.defaultdict(list)
def rowsn(cs): return [(c.timestamp,c.open,c.high,c.low,c.close,c.volume) for c in cs]
for hk in [dict(), dict(candlestick_type='HA'), dict(timeframe='T5'), dict(timeframe_fill=True), dict(candles_lifespan=timedelta(minutes=30))]:
  for name,mk in ALL.items():
    if name in ('RSI','STOCH'): continue
    for tf in [None,'T5','T10']:
      for mode in ['ctor','append1','append3','dict']:
        seed=1; s=mk_stream(60,seed)
        try:
            kw={} if tf is None else dict(timeframe=tf)
            ind=mk(**kw)
            form=ind if mode!='dict' else ind.settings
            if mode in('ctor','dict'):
                hx=Hexital('x',copy.deepcopy(s),[form],**hk); hx.calculate()
            else:
                hx=Hexital('x',[],[form],**hk); k=1 if mode=='append1' else 3; i=0; cs=copy.deepcopy(s)
                while i<len(cs): hx.append(cs[i:i+k]); i+=k
            # standalone with effective config
            eff=dict(hk); 
            if tf: eff['timeframe']=tf
            st=mk(candles=copy.deepcopy(s),**eff); st.calculate()
            member=hx.indicator(st.name) if st.name in hx.indicators else list(hx.indicators.values())[0]
            a=snap(member); b=snap(st)
            if member.name!=st.name: res[(tuple(hk.items()),'NAME')].append((name,tf,mode,member.name,st.name))
            elif a!=b:
                i=next((i for i,(x,y) in enumerate(zip(a,b)) if x!=y),None)
                res[(tuple(hk),'DIFF')].append((name,tf,mode,len(a),len(b),i))
        except Exception as e:
            tb=traceback.extract_tb(e.__traceback__)[-1]
            res[(tuple(hk),'EXC')].append((name,tf,mode,type(e).__name__,str(e)[:80],tb.filename.split('/')[-1],tb.lineno))
for k,v in res.items():
    print('==',k,len(v))
    c=collections.Counter((x[1],x[2]) for x in v); print('   by tf/mode',dict(c))
    for x in v[:6]: print('   ',str(x)[:300])

from common import *
from hexital.analysis import patterns as P
import collections
r=random.Random(8)
T0=datetime(2023,1,1)
def C(o,h,l,c,i): return Candle(float(o),float(h),float(l),float(c),1,timestamp=T0+timedelta(minutes=i))
def history(n,b,R,base):
    out=[];p=base
    for i in range(n):
        body=r.uniform(b,2*b)*r.choice([1,-1]); o=p; c=p+body
        rng=r.uniform(max(R,abs(body)),2*R); extra=rng-abs(body); up=r.uniform(0,extra)
        h=max(o,c)+up; l=min(o,c)-(extra-up)
        out.append(C(o,h,l,c,i)); p=c+r.uniform(-b,b)
    return out
def avgs(cs,i):
    # thresholds under both conventions
    def av(f,n,end,incl): 
        idx=range(end-n+1,end+1) if incl else range(end-n,end)
        return sum(f(cs[k]) for k in idx)/n
    return av
res=collections.Counter()
for it in range(2000):
    b=r.uniform(0.5,5); R=r.uniform(2,4)*b*3; base=r.uniform(200,1000); n=r.randint(12,25); m=r.choice([2,3,5])
    hs=history(n,b,R,base); i=n; prev=hs[-1]
    # --- doji witness / counter
    rng=r.uniform(R,2*R); body=0.1*0.9*R/m*r.uniform(0.1,1); o=prev.close; c=o+body*r.choice([1,-1]); up=(rng-body)/2
    w=hs+[C(o,max(o,c)+up,min(o,c)-up,c,i)]; res['doji W',P.doji(w,index=i)]+=1
    body=min(2*R, m*0.1*2*R*r.uniform(1,1.5)); rng=max(body,r.uniform(R,2*R)); c=o+body; up=(rng-body)/2
    w=hs+[C(o,max(o,c)+up,min(o,c)-up,c,i)]; res['doji CW',P.doji(w,index=i)]+=1
    # --- hammer witness
    body=b/(m*1.3)*r.uniform(0.2,1); lower=m*body*r.uniform(1,3)+0.01; upper=0.1*0.9*R/m*r.uniform(0,1)
    if body+lower+upper>2*R: pass
    top=prev.low*1.0 - r.uniform(0,b)  # body bottom <= prev.low  -> bottom=min(o,c)
    bottom=top-0  # set bottom = prev.low - x
    bottom=prev.low-r.uniform(0,b); o_,c_=(bottom,bottom+body) if r.random()<0.5 else (bottom+body,bottom)
    w=hs+[C(o_,max(o_,c_)+upper,bottom-lower,c_,i)]; res['hammer W',P.hammer(w,index=i)]+=1
    # counter: long upper shadow
    upper2=m*0.1*2*R*1.2
    w=hs+[C(o_,max(o_,c_)+upper2,bottom-lower,c_,i)]; res['hammer CW upper',P.hammer(w,index=i)]+=1
    # counter: lower shadow short
    w=hs+[C(o_,max(o_,c_)+upper,bottom-body/m,c_,i)]; res['hammer CW lower',P.hammer(w,index=i)]+=1
    # counter: big body
    body2=m*2*b*1.2; o2,c2=bottom,bottom+body2
    w=hs+[C(o2,c2+upper,bottom-max(lower,m*body2),c2,i)]; res['hammer CW body',P.hammer(w,index=i)]+=1
    # counter: far above prev low
    bt=prev.low+m*0.2*2*R*1.2; o3,c3=bt,bt+body
    w=hs+[C(o3,c3+upper,bt-lower,c3,i)]; res['hammer CW near',P.hammer(w,index=i)]+=1
    # --- inverted hammer witness: gap down body, long upper, short lower
    pb=min(prev.open,prev.close); top=pb-r.uniform(0.01,b); o_,c_=(top,top-body) if r.random()<0.5 else (top-body,top)
    upper=m*body*r.uniform(1,3)+0.01; lower=0.1*0.9*R/m*r.uniform(0,1)
    w=hs+[C(o_,top+upper,top-body-lower,c_,i)]; res['invh W',P.inverted_hammer(w,index=i)]+=1
    top2=pb+r.uniform(0.01,b)+body  # no gap
    w=hs+[C(top2,top2+upper,top2-body-lower,top2-body,i)]; res['invh CW gap',P.inverted_hammer(w,index=i)]+=1
    # --- dojistar: need prev long body: rebuild prev
    Pb=4.5*2*b*r.uniform(1.1,1.5) if m==2 else 2*b*m*3
    sgn=r.choice([1,-1]); po=hs[-2].close; pc=po+sgn*Pb; pr=C(po,max(po,pc)+0.1,min(po,pc)-0.1,pc,n-1)
    hs2=hs[:-1]+[pr]
    body=0.1*0.9*R/m*r.uniform(0,1)
    if sgn>0: lo=max(po,pc)+r.uniform(0.01,b); o_,c_=lo,lo+body
    else: hi=min(po,pc)-r.uniform(0.01,b); o_,c_=hi,hi-body
    w=hs2+[C(o_,max(o_,c_)+R/2,min(o_,c_)-R/2,c_,i)]; res['dojistar W',P.dojistar(w,index=i)]+=1
    # counter: gap in wrong direction
    if sgn>0: hi=min(po,pc)-r.uniform(0.01,b); o4,c4=hi,hi-body
    else: lo=max(po,pc)+r.uniform(0.01,b); o4,c4=lo,lo+body
    w=hs2+[C(o4,max(o4,c4)+R/2,min(o4,c4)-R/2,c4,i)]; res['dojistar CW gapdir',P.dojistar(w,index=i)]+=1
for k,v in sorted(res.items()): print(k,v)

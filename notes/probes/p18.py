import os, time, copy
from datetime import datetime, timedelta
from hexital import Candle
from hexital.core.candle_manager import CandleManager
def rows(m): return [(c.timestamp,c.volume) for c in m.candles]
cs=[Candle(1,2,0.5,1.5,10,timestamp=datetime(2023,3,11,22,10)+timedelta(minutes=20*i)) for i in range(30)]
def run(tz,tf):
    os.environ['TZ']=tz; time.tzset()
    try:
        return rows(CandleManager(copy.deepcopy(cs),timeframe=tf))
    except Exception as e: return ('EXC',type(e).__name__)
    finally:
        os.environ['TZ']='UTC'; time.tzset()
for tz in ['UTC','XXX-5:30','UTC','EST5EDT,M3.2.0,M11.1.0','XXX+3:30','UTC','LHST-10:30LHDT-11,M10.1.0,M4.1.0','Asia/Kathmandu','UTC']:
    a=run(tz,'H1'); b=run('UTC','H1')
    print(tz, 'same as UTC' if a==b else ('DIFF', a[:2] if a[0]!='EXC' else a))

from common import *
t0=datetime(2023,6,1,9,0)
def mk(rows): return [Candle(float(o),float(h),float(l),float(c),v,timestamp=t0+timedelta(minutes=i+1)) for i,(o,h,l,c,v) in enumerate(rows)]
# OBV: equal volume, rising close
a=I.OBV(candles=mk([(10,11,9,10,5),(10,12,9,11,5),(11,12,9,11,7),(11,12,9,12,7)])); a.calculate(); print('OBV',a.as_list(),'expected [5,10,10,17]')
# KC / Supertrend gap: move then long flat
rows=[(10,12,9,11,5),(11,13,10,12,5),(12,14,11,13,5)]+[(13,13,13,13,1)]*60
for nm,mkk in [('KC',lambda c:I.KC(candles=c,period=2)),('ST',lambda c:I.Supertrend(candles=c,period=2)),('ADX',lambda c:I.ADX(candles=c,period=2)),('TSI',lambda c:I.TSI(candles=c,period=2)),('ATR',lambda c:I.ATR(candles=c,period=2))]:
    try:
        x=mkk(mk(rows)); x.calculate(); L=x.as_list()
        def val(v): return v if not isinstance(v,dict) else list(v.values())[0]
        first=next((i for i,v in enumerate(L) if val(v) is not None),None)
        gap=next((i for i,v in enumerate(L) if first is not None and i>first and val(v) is None),None)
        print(nm,'first',first,'gap at',gap, L[gap-1] if gap else None, L[gap] if gap else L[-1])
    except Exception as e: print(nm,'EXC',repr(e))
# falling market ADX DI+ = 0
rows=[(100-i,100-i,98-i,99-i,5) for i in range(30)]
x=I.ADX(candles=mk(rows),period=3); x.calculate(); print('ADX falling',x.as_list()[-1])
# STDEV negative variance
rows=[(10,12,9,11,5)]*1+[(1000.07,1000.07,1000.07,1000.07,1)]*30
try:
    x=I.StandardDeviation(candles=mk(rows),period=3); x.calculate(); print('STDEV',x.as_list()[-3:])
except Exception as e: print('STDEV EXC',repr(e))
# HMA/MACD with zero-valued input
cs=mk([(10,12,9,11,5)]*30)
for c in cs: c.indicators['Z']=0.0
for nm,x in [('HMA',I.HMA(candles=cs,period=4,input_value='Z')),('MACD',I.MACD(candles=cs,fast_period=2,slow_period=3,signal_period=2,input_value='Z')),('EMA',I.EMA(candles=cs,period=3,input_value='Z'))]:
    x.calculate(); print(nm,x.as_list()[-1])
# Amorph positional? reading 'volume' ROC

from common import *
import collections, math, traceback
r=random.Random(11)
def gstream(n):
    t=datetime(2023,6,1,9,0); out=[]; p=r.randint(5,40); mode='rand'
    for i in range(n):
        if r.random()<0.15: mode=r.choice(['rand','flat','up','down','zerovol'])
        if mode=='flat': o=h=l=c=p; v=r.choice([0,3])
        else:
            o=p
            c=p+ (r.randint(1,3) if mode=='up' else -r.randint(1,3) if mode=='down' else r.randint(-3,3)); c=max(1,c)
            h=max(o,c)+r.randint(0,2); l=max(1,min(o,c)-r.randint(0,2)); l=min(l,o,c); v=0 if mode=='zerovol' else r.randint(0,5)
        t+=timedelta(minutes=1); out.append(Candle(float(o),float(h),float(l),float(c),v,timestamp=t)); p=c
    return out
viol=collections.defaultdict(list)
def chk(name,cond,info):
    if not cond and len(viol[name])<3: viol[name].append(info)
    if not cond: cnt[name]+=1
cnt=collections.Counter(); exc=collections.Counter(); exs={}
for it in range(300):
    s=gstream(r.randint(5,80)); p=r.randint(2,6)
    mks={'RSI':lambda:I.RSI(period=p,candles=copy.deepcopy(s)),'STOCH':lambda:I.STOCH(period=p,candles=copy.deepcopy(s)),'AROON':lambda:I.AROON(period=p,candles=copy.deepcopy(s)),'ADX':lambda:I.ADX(period=p,candles=copy.deepcopy(s)),
     'TSI':lambda:I.TSI(period=p,candles=copy.deepcopy(s)),'TR':lambda:I.TR(candles=copy.deepcopy(s)),'ATR':lambda:I.ATR(period=p,candles=copy.deepcopy(s)),'STDEV':lambda:I.StandardDeviation(period=p,candles=copy.deepcopy(s)),
     'BB':lambda:I.BBANDS(period=p,candles=copy.deepcopy(s)),'KC':lambda:I.KC(period=p,candles=copy.deepcopy(s)),'DC':lambda:I.Donchian(period=p,candles=copy.deepcopy(s)),'MACD':lambda:I.MACD(fast_period=p,slow_period=p+2,signal_period=2,candles=copy.deepcopy(s)),
     'ST':lambda:I.Supertrend(period=p,candles=copy.deepcopy(s)),'OBV':lambda:I.OBV(candles=copy.deepcopy(s)),'VWMA':lambda:I.VWMA(period=p,candles=copy.deepcopy(s)),'HMA':lambda:I.HMA(period=max(p,4),candles=copy.deepcopy(s)),'ROC':lambda:I.ROC(period=p,candles=copy.deepcopy(s)),'VWAP':lambda:I.VWAP(candles=copy.deepcopy(s)),'THR':lambda:I.StandardDeviationThreshold(period=p,candles=copy.deepcopy(s))}
    for nm,mk in mks.items():
        try:
            a=mk(); a.calculate(); L=a.as_list()
        except Exception as e:
            tb=traceback.extract_tb(e.__traceback__)[-1]; exc[(nm,type(e).__name__,tb.filename.split('/')[-1],tb.lineno)]+=1; continue
        started=set()
        for i,(v,c) in enumerate(zip(L,a.candles)):
            d=v if isinstance(v,dict) else {'_':v}
            for k,x in d.items():
                if x is not None: started.add(k)
                elif k in started and not (nm=='ST' and k in('long','short')): chk(nm+':gap:'+k,False,(i,p))
                if isinstance(x,float) and not math.isfinite(x): chk(nm+':nonfinite',False,(i,x))
            e=1e-3
            if nm=='RSI' and v is not None: chk('RSI range',-e<=v<=100+e,(i,v))
            if nm=='STOCH': 
                for k in d: 
                    if d[k] is not None: chk('STOCH range',-e<=d[k]<=100+e,(i,k,d[k]))
            if nm=='AROON' and d['AROONU'] is not None: chk('AROON',0<=d['AROONU']<=100 and 0<=d['AROOND']<=100 and abs(d['AROONOSC']-(d['AROONU']-d['AROOND']))<e,(i,d))
            if nm=='ADX':
                for k in d:
                    if d[k] is not None: chk('ADX range '+k,-e<=d[k]<=100+e,(i,k,d[k],p))
            if nm=='TSI' and v is not None: chk('TSI range',-100-e<=v<=100+e,(i,v))
            if nm=='TR' and v is not None: chk('TR',v>=c.high-c.low-e,(i,v))
            if nm=='STDEV' and v is not None: chk('STDEV>=0',v>=0,(i,v))
            if nm=='BB' and d['BBM'] is not None: chk('BB order',d['BBL']<=d['BBM']<=d['BBU'],(i,d))
            if nm=='KC' and d['band'] is not None: chk('KC order',d['lower']<=d['band']<=d['upper'],(i,d))
            if nm=='DC' and d['DCU'] is not None: chk('DC',d['DCL']<=c.low and c.high<=d['DCU'] and abs(d['DCM']-(d['DCL']+d['DCU'])/2)<e,(i,d))
            if nm=='MACD' and d['histogram'] is not None: chk('MACD hist',abs(d['histogram']-(d['MACD']-d['signal']))<2e-4,(i,d))
            if nm=='ST' and d['trend'] is not None: chk('ST', d['direction'] in (1,-1) and ((d['long'] is None)!=(d['short'] is None)) and d['trend']==(d['long'] if d['long'] is not None else d['short']),(i,d))
for k,v in sorted(cnt.items()): print(k,v,viol[k][:2])
for k,v in exc.items(): print('EXC',k,v)

import math
def sma(x,p):
    out=[None]*len(x)
    for i in range(len(x)):
        w=x[i-p+1:i+1] if i-p+1>=0 else None
        if w is not None and all(v is not None for v in w): out[i]=sum(w)/p
    return out
def first_full(x,p):
    run=0
    for i,v in enumerate(x):
        run = run+1 if v is not None else 0
        if run>=p: return i
    return None
def ema(x,p,smoothing=2.0):
    out=[None]*len(x); s=first_full(x,p)
    if s is None: return out
    a=smoothing/(p+1); out[s]=sum(x[s-p+1:s+1])/p
    for i in range(s+1,len(x)): out[i]=a*x[i]+(1-a)*out[i-1]
    return out
def rma(x,p):
    out=[None]*len(x); s=first_full(x,p)
    if s is None: return out
    a=1.0/p
    w=[(1-a)**k for k in range(p)]
    out[s]=sum(w[k]*x[s-k] for k in range(p))/sum(w)
    for i in range(s+1,len(x)): out[i]=a*x[i]+(1-a)*out[i-1]
    return out
def wma(x,p):
    out=[None]*len(x)
    for i in range(len(x)):
        if i-p+1<0: continue
        w=x[i-p+1:i+1]
        if any(v is None for v in w): continue
        out[i]=sum(w[k]*(k+1) for k in range(p))/(p*(p+1)/2)
    return out
def vwma(c,v,p):
    out=[None]*len(c)
    for i in range(len(c)):
        if i-p+1<0: continue
        sv=sum(v[i-p+1:i+1])
        out[i]=sum(a*b for a,b in zip(c[i-p+1:i+1],v[i-p+1:i+1]))/sv if sv else None
    return out
def hma(x,p):
    a=wma(x,int(p/2)); b=wma(x,p)
    raw=[2*ai-bi if ai is not None and bi is not None else None for ai,bi in zip(a,b)]
    return wma(raw,int(math.sqrt(p)))

def tr(h,l,c):
    out=[None]*len(h)
    for i in range(1,len(h)): out[i]=max(h[i]-l[i],abs(h[i]-c[i-1]),abs(l[i]-c[i-1]))
    return out
def wilder(x,p):
    """seed = plain mean of first p values, then (prev*(p-1)+x)/p"""
    out=[None]*len(x); s=first_full(x,p)
    if s is None: return out
    out[s]=sum(x[s-p+1:s+1])/p
    for i in range(s+1,len(x)): out[i]=(out[i-1]*(p-1)+x[i])/p
    return out
def atr(h,l,c,p): return wilder(tr(h,l,c),p)
def stdev(x,p):
    out=[None]*len(x)
    for i in range(len(x)):
        if i-p+1<0: continue
        w=x[i-p+1:i+1]
        if any(v is None for v in w): continue
        m=sum(w)/p; out[i]=math.sqrt(sum((v-m)**2 for v in w)/p)
    return out
def bbands(x,p,k=2.0):
    m=sma(x,p); s=stdev(x,p)
    return [dict(BBL=a-k*b,BBM=a,BBU=a+k*b) if a is not None and b is not None else dict(BBL=None,BBM=None,BBU=None) for a,b in zip(m,s)]
def kc(h,l,c,p,mult):
    e=ema(c,p); a=atr(h,l,c,p)
    return [dict(lower=x-mult*y,band=x,upper=x+mult*y) if x is not None and y is not None else dict(lower=None,band=None,upper=None) for x,y in zip(e,a)]
def donchian(h,l,p):
    out=[]
    for i in range(len(h)):
        if i-p+1<0: out.append(dict(DCL=None,DCM=None,DCU=None)); continue
        u=max(h[i-p+1:i+1]); d=min(l[i-p+1:i+1]); out.append(dict(DCL=d,DCM=(u+d)/2,DCU=u))
    return out
def hl(h,l,p):
    # HighestLowest: "highest and lowest values N periods back" - current + p before (movement semantic)
    return [dict(low=min(l[max(0,i-p):i+1]),high=max(h[max(0,i-p):i+1])) for i in range(len(h))]
def hla(h,l): return [(a+b)/2 for a,b in zip(h,l)]
def supertrend(h,l,c,p,mult):
    a=atr(h,l,c,p); out=[]; pu=pl=None; pdir=1
    for i in range(len(h)):
        if a[i] is None:
            out.append(dict(trend=None,direction=1,long=None,short=None)); continue
        mid=(h[i]+l[i])/2; up=mid+mult*a[i]; lo=mid-mult*a[i]; d=1
        if pu is not None:
            if c[i]>pu: d=1
            elif c[i]<pl: d=-1
            else:
                d=pdir
                if d==1 and lo<pl: lo=pl
                if d==-1 and up>pu: up=pu
        pu,pl,pdir=up,lo,d
        out.append(dict(trend=lo if d==1 else up,direction=d,long=lo if d==1 else None,short=up if d==-1 else None))
    return out
def stdevthres(x,p,mult):
    s=stdev(x,p)
    return [ (abs(x[i]-x[i-1])>s[i]*mult) if s[i] is not None and i>0 else False for i in range(len(x))]
def counter(x,val=True):
    out=[];n=0
    for v in x:
        if v is None: out.append(n); continue
        n = n+1 if v==val else 0
        out.append(n)
    return out
def rsi(x,p):
    out=[None]*len(x)
    if len(x)<p+1: return out
    ch=[x[i]-x[i-1] for i in range(1,p+1)]
    g=sum(v for v in ch if v>0)/p; lo=sum(-v for v in ch if v<0)/p
    def val(g,lo): return 100.0 if lo==0 else 100-100/(1+g/lo)
    out[p]=val(g,lo)
    for i in range(p+1,len(x)):
        d=x[i]-x[i-1]; g=(g*(p-1)+max(d,0))/p; lo=(lo*(p-1)+max(-d,0))/p; out[i]=val(g,lo)
    return out
def macd(x,f,s,sig):
    if s<f: f,s=s,f
    ef=ema(x,f); es=ema(x,s)
    m=[a-b if a is not None and b is not None else None for a,b in zip(ef,es)]
    sg=ema(m,sig)
    return [dict(MACD=a,signal=b,histogram=(a-b) if a is not None and b is not None else None) for a,b in zip(m,sg)]
def roc(x,p): return [None if i<p else (x[i]-x[i-p])/x[i-p]*100 for i in range(len(x))]
def stoch(h,l,c,p,k,d):
    st=[None]*len(c)
    for i in range(p-1,len(c)):
        hh=max(h[i-p+1:i+1]); ll=min(l[i-p+1:i+1])
        st[i]=(c[i]-ll)/(hh-ll)*100 if hh!=ll else None
    kk=sma(st,k); dd=sma(kk,d)
    return [dict(stoch=a,k=b,d=cc) for a,b,cc in zip(st,kk,dd)]
def tsi(x,p,sp=None):
    if sp is None: sp=int(p/2)+(p%2>0)
    m=[None]+[x[i]-x[i-1] for i in range(1,len(x))]; am=[None if v is None else abs(v) for v in m]
    a=ema(ema(m,p),sp); b=ema(ema(am,p),sp)
    return [100*u/v if u is not None and v else None for u,v in zip(a,b)]
def aroon(h,l,p):
    out=[]
    for i in range(len(h)):
        if i<p: out.append(dict(AROONU=None,AROOND=None,AROONOSC=None)); continue
        wh=h[i-p:i+1]; wl=l[i-p:i+1]
        bh=min(k for k in range(p+1) if wh[p-k]==max(wh)); bl=min(k for k in range(p+1) if wl[p-k]==min(wl))
        u=(p-bh)/p*100; d=(p-bl)/p*100; out.append(dict(AROONU=u,AROOND=d,AROONOSC=u-d))
    return out
def adx(h,l,c,p,ps=None):
    if ps is None: ps=p
    n=len(h); pos=[None]*n; neg=[None]*n
    for i in range(1,n):
        up=h[i]-h[i-1]; dn=l[i-1]-l[i]
        pos[i]=up if up>dn and up>0 else 0; neg[i]=dn if dn>up and dn>0 else 0
    a=atr(h,l,c,p); rp=rma(pos,p); rn=rma(neg,p)
    dip=[100*x/y if x is not None and y else None for x,y in zip(rp,a)]
    din=[100*x/y if x is not None and y else None for x,y in zip(rn,a)]
    dx=[100*abs(x-y)/(x+y) if x is not None and y is not None and (x+y) else None for x,y in zip(dip,din)]
    ad=rma(dx,ps)
    return [dict(ADX=u,DM_Plus=v,DM_Neg=w) for u,v,w in zip(ad,dip,din)]
def obv(c,v):
    out=[v[0]]
    for i in range(1,len(c)):
        out.append(out[-1]+v[i] if c[i]>c[i-1] else out[-1]-v[i] if c[i]<c[i-1] else out[-1])
    return out
def vwap(h,l,c,v):
    pv=0;vv=0;out=[]
    for i in range(len(c)):
        pv+=v[i]*(h[i]+l[i]+c[i])/3; vv+=v[i]; out.append(pv/vv if vv else None)
    return out

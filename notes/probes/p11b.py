import os,time
os.environ['TZ']='UTC'; time.tzset()
from common import *
from e3 import ref_collapse, gen
from p11 import ha_ref
from hexital.utils.timeframe import timeframe_to_timedelta
import collections
r=random.Random(4); cat=collections.Counter(); shown=0
for it in range(1500):
    n=r.randint(1,25); cs=gen(r,n); tfn=r.choice([None,'T1','T5','S30','H1']); fill=bool(tfn) and r.random()<0.3
    raw=ref_collapse(cs,timeframe_to_timedelta(tfn),fill) if tfn else [(c.timestamp,c.open,c.high,c.low,c.close,c.volume) for c in cs]
    if len(raw)>500: continue
    exp=ha_ref([x[1:5] for x in raw])
    pre=r.choice([0,1,2,r.randint(0,n)])
    kw=dict(timeframe=tfn,timeframe_fill=fill) if tfn else {}
    a=I.EMA(candles=copy.deepcopy(cs[:pre]),period=3,candlestick_type='HA',**kw); 
    calc=r.random()<0.5
    if calc: a.calculate()
    i=pre; sched=[]
    while i<n:
        k=r.choice([1,1,2,5]); a.append(copy.deepcopy(cs[i:i+k])); sched.append(k); i+=k
    got=[(c.open,c.high,c.low,c.close) for c in a.candles]
    clean=[(c.clean_values.get('open'),c.clean_values.get('high'),c.clean_values.get('low'),c.clean_values.get('close'),c.clean_values.get('volume')) for c in a.candles]
    okv=len(got)==len(exp) and all(abs(x-y)<=1e-9*max(1,abs(y)) for g,e in zip(got,exp) for x,y in zip(g,e)); okc=clean==[x[1:] for x in raw]
    if not (okv and okc):
        cat[(tfn is not None, fill, 'values' if not okv else '', 'clean' if not okc else '', len(got)==len(exp))]+=1
        if shown<2 and n<10:
            shown+=1
            print(tfn,fill,pre,sched); print(' in ',[(str(c.timestamp)[11:],c.open,c.high,c.low,c.close,c.volume) for c in cs]); print(' raw',[(str(x[0])[11:],)+x[1:] for x in raw]); print(' got',got); print(' exp',exp); print(' clean',clean); print(' tags',[c.tag for c in a.candles])
print(cat)

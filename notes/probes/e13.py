from common import *
import collections, traceback, itertools
res=collections.defaultdict(list)
s=mk_stream(40,2)
names=[n for n in ALL if n not in ('RSI','STOCH')]
def solo(name):
    hx=Hexital('x',copy.deepcopy(s),[ALL[name]()]); hx.calculate(); return list(hx.indicators.values())[0].as_list()
solos={n:solo(n) for n in names}
for a,b in itertools.permutations(names,2):
    try:
        ia,ib=ALL[a](),ALL[b]()
        if ia.name==ib.name: continue
        hx=Hexital('x',copy.deepcopy(s),[ia,ib]); hx.calculate()
        if hx.indicator(ib.name).as_list()!=solos[b]: res['presence'].append((a,b))
        for op in ('purge','recalculate','remove_indicator'):
            hx=Hexital('x',copy.deepcopy(s),[ALL[a](),ALL[b]()]); hx.calculate()
            getattr(hx,op)(ia.name)
            if ib.name not in hx.indicators: res[op+':removed other'].append((a,b)); continue
            if hx.indicator(ib.name).as_list()!=solos[b]: res[op+':changed other'].append((a,b,ia.name,ib.name))
            else:
                hx.calculate()
                if hx.indicator(ib.name).as_list()!=solos[b]: res[op+':changed other after calc'].append((a,b,ia.name,ib.name))
    except Exception as e:
        tb=traceback.extract_tb(e.__traceback__)[-1]
        res['EXC'].append((a,b,type(e).__name__,str(e)[:60],tb.filename.split('/')[-1],tb.lineno))
for k,v in res.items():
    print('==',k,len(v))
    for x in v[:12]: print('    ',str(x)[:260])

from common import *
from hexital.analysis import MOVEMENT_MAP, PATTERN_MAP
from hexital.indicators import Amorph
import collections, traceback
# Amorph settings roundtrip + batch vs live
s=mk_stream(40,3)
for nm,f in {**PATTERN_MAP,**MOVEMENT_MAP}.items():
    kw={}
    import inspect
    sig=inspect.signature(f).parameters
    if 'indicator' in sig: kw['indicator']='close'
    if 'indicator_one' in sig: kw['indicator_one']='close'
    if 'indicator_two' in sig: kw['indicator_two']='open'
    if 'length' in sig: kw['length']=3
    try:
        a=Amorph(analysis=f,**kw,candles=copy.deepcopy(s)); a.calculate()
        b=Amorph(analysis=f,**kw,candles=[])
        for c in copy.deepcopy(s): b.append(c)
        same=a.as_list()==b.as_list()
        st=a.settings
        try:
            hx=Hexital('x',copy.deepcopy(s),[st]); hx.calculate(); rt=list(hx.indicators.values())[0].as_list()==a.as_list()
        except Exception as e: rt='EXC '+type(e).__name__+' '+str(e)[:80]
        print(nm,'name',a.name,'batch==live',same,'settings rt',rt, '' if same else [ (i,x,y) for i,(x,y) in enumerate(zip(a.as_list(),b.as_list())) if x!=y][:3])
    except Exception as e:
        print(nm,'EXC',repr(e)[:150])
# with lookback
for nm,f in PATTERN_MAP.items():
    a=Amorph(analysis=f,lookback=3,candles=copy.deepcopy(s)); a.calculate()
    b=Amorph(analysis=f,lookback=3,candles=[])
    for c in copy.deepcopy(s): b.append(c)
    print(nm,'lookback batch==live',a.as_list()==b.as_list())
# lifespan
print('--- lifespan')
for name,mk in ALL.items():
    if name in ('RSI','STOCH'): continue
    s=mk_stream(120,4)
    try:
        a=mk(candles=[],candles_lifespan=timedelta(minutes=40)); b=mk(candles=[])
        bad=None
        for i,c in enumerate(copy.deepcopy(s)):
            a.append(copy.deepcopy(c)); b.append(copy.deepcopy(c))
            ts=[x.timestamp for x in a.candles]; exp=[x.timestamp for x in b.candles if x.timestamp>=b.candles[-1].timestamp-timedelta(minutes=40)]
            if ts!=exp: bad=('retained',i); break
        ta=a.as_list(); tb=b.as_list()[-len(ta):]
        if bad is None and ta!=tb: bad=('readings',[(i,x,y) for i,(x,y) in enumerate(zip(ta,tb)) if x!=y][:2])
        print(name,'OK' if not bad else bad)
    except Exception as e:
        tb_=traceback.extract_tb(e.__traceback__)[-1]; print(name,'EXC',type(e).__name__,str(e)[:60],tb_.filename.split('/')[-1],tb_.lineno)

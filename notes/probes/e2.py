from common import *
import collections
res=collections.defaultdict(list)
for name,mk in ALL.items():
    if name in('RSI',): continue
    for cfg in [dict(), dict(timeframe='T5'), dict(timeframe='T5',timeframe_fill=True)]:
        for seed in range(4):
            s=mk_stream(50,seed,jitter=seed%2==1)
            pre=12
            a=mk(candles=copy.deepcopy(s[:pre]),**cfg); a.calculate()
            prev=snap(a); 
            try:
                for c in copy.deepcopy(s[pre:]):
                    a.append(c)
                    cur=snap(a)
                    closed=prev if not cfg else prev[:-1]
                    for i,row in enumerate(closed):
                        if cur[i]!=row:
                            res[name].append((cfg.get('timeframe'),cfg.get('timeframe_fill'),seed,'idx',i,'of',len(cur), [ (k,row[6].get(k),cur[i][6].get(k)) for k in row[6] if row[6].get(k)!=cur[i][6].get(k)], [ (k,row[7].get(k),cur[i][7].get(k)) for k in row[7] if row[7].get(k)!=cur[i][7].get(k)])); raise StopIteration
                    prev=cur
            except StopIteration: pass
for k,v in res.items():
    print('==',k,len(v))
    for x in v[:3]: print('   ',str(x)[:500])

from common import *
import ref, sys
def cmpv(x,y,tol):
    if isinstance(y,dict) or isinstance(x,dict):
        if not isinstance(x,dict) or not isinstance(y,dict): return False
        return set(x)==set(y) and all(cmpv(x[k],y[k],tol) for k in y)
    if x is None or y is None: return x is None and y is None
    if isinstance(y,bool) or isinstance(x,bool): return x==y
    return abs(x-y)<=tol*max(1,abs(y))
def cmp(a,b,tol=2e-3):
    return [(i,x,y) for i,(x,y) in enumerate(zip(a,b)) if not cmpv(x,y,tol)]
tot={}
for seed in range(8):
    s=mk_stream(70,seed, flat=0.0 if seed<5 else 0.3); o=[c.open for c in s];h=[c.high for c in s];l=[c.low for c in s];c=[c_.close for c_ in s];v=[c_.volume for c_ in s]
    for p in [2,3,5,8]:
        cases={
         'TR':(lambda:I.TR(candles=copy.deepcopy(s)),lambda:ref.tr(h,l,c)),
         'ATR':(lambda:I.ATR(candles=copy.deepcopy(s),period=p),lambda:ref.atr(h,l,c,p)),
         'STDEV':(lambda:I.StandardDeviation(candles=copy.deepcopy(s),period=p),lambda:ref.stdev(c,p)),
         'BBANDS':(lambda:I.BBANDS(candles=copy.deepcopy(s),period=p),lambda:ref.bbands(c,p)),
         'KC':(lambda:I.KC(candles=copy.deepcopy(s),period=p,multiplier=1.5),lambda:ref.kc(h,l,c,p,1.5)),
         'DONCHIAN':(lambda:I.Donchian(candles=copy.deepcopy(s),period=p),lambda:ref.donchian(h,l,p)),
         'HL':(lambda:I.HighestLowest(candles=copy.deepcopy(s),period=p),lambda:ref.hl(h,l,p)),
         'HLA':(lambda:I.HighLowAverage(candles=copy.deepcopy(s)),lambda:ref.hla(h,l)),
         'ST':(lambda:I.Supertrend(candles=copy.deepcopy(s),period=p,multiplier=2.0),lambda:ref.supertrend(h,l,c,p,2.0)),
         'STDEVTHRES':(lambda:I.StandardDeviationThreshold(candles=copy.deepcopy(s),period=p,multiplier=1.0),lambda:ref.stdevthres(c,p,1.0)),
         'COUNTER':(lambda:I.Counter(candles=copy.deepcopy(s),input_value='positive'),lambda:ref.counter([a<b for a,b in zip(o,c)])),
         'RSI':(lambda:I.RSI(candles=copy.deepcopy(s),period=p),lambda:ref.rsi(c,p)),
         'MACD':(lambda:I.MACD(candles=copy.deepcopy(s),fast_period=p,slow_period=p+3,signal_period=3),lambda:ref.macd(c,p,p+3,3)),
         'ROC':(lambda:I.ROC(candles=copy.deepcopy(s),period=p),lambda:ref.roc(c,p)),
         'STOCH':(lambda:I.STOCH(candles=copy.deepcopy(s),period=p,slow_period=3,smoothing_k=2),lambda:ref.stoch(h,l,c,p,2,3)),
         'TSI':(lambda:I.TSI(candles=copy.deepcopy(s),period=p),lambda:ref.tsi(c,p)),
         'AROON':(lambda:I.AROON(candles=copy.deepcopy(s),period=p),lambda:ref.aroon(h,l,p)),
         'ADX':(lambda:I.ADX(candles=copy.deepcopy(s),period=p),lambda:ref.adx(h,l,c,p)),
         'OBV':(lambda:I.OBV(candles=copy.deepcopy(s)),lambda:ref.obv(c,v)),
         'VWAP':(lambda:I.VWAP(candles=copy.deepcopy(s)),lambda:ref.vwap(h,l,c,v)),
        }
        for nm,(mk,rf) in cases.items():
            try:
                ind=mk(); ind.calculate(); bad=cmp(ind.as_list(),rf())
            except Exception as e:
                import traceback
                bad=[('EXC',repr(e),traceback.extract_tb(e.__traceback__)[-1].lineno)]
            if bad:
                tot.setdefault(nm,[]).append((seed,p,len(bad),bad[:2]))
for nm,v in tot.items():
    print('==',nm,len(v))
    for x in v[:4]: print('   ',str(x)[:600])

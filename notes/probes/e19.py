from common import *
import collections, traceback
s=mk_stream(20,2)
a=I.EMA(candles=copy.deepcopy(s),period=3); a.calculate()
before=snap(a)
print('str ok', len(str(a))>0)
try:
    print('candles attr after str:', hasattr(a,'candles')); a.append(copy.deepcopy(s[-1])); print('append after str OK')
except Exception as e: print('after str EXC',repr(e))
a=I.EMA(candles=copy.deepcopy(s),period=3); a.calculate(); r=repr(a); print('repr len',len(r)); print(hasattr(a,'candles'))
# settings mutability
a=I.Counter(input_value='positive'); st=a.settings; print(st)
# list form through hexital
t0=datetime(2023,6,1,9,0)
rows=[[t0+timedelta(minutes=i+1),10+i,12+i,9+i,11+i,5] for i in range(12)]
hx=Hexital('x',[],[I.EMA(period=3),I.EMA(period=3,timeframe='T5')])
rows_copy=copy.deepcopy(rows)
hx.append(rows)
print('caller list mutated:', rows!=rows_copy, rows[0])
print({k:len(v) for k,v in hx.get_candles().items()}, [c.timestamp for c in hx.candles('T5')][:3])
# dict form
d=[dict(open=10+i,high=12+i,low=9+i,close=11+i,volume=5,timestamp=t0+timedelta(minutes=i+1)) for i in range(12)]
d0=copy.deepcopy(d)
hx=Hexital('x',[],[I.EMA(period=3),I.EMA(period=3,timeframe='T5')]); hx.append(d); print('dict mutated',d!=d0,{k:len(v) for k,v in hx.get_candles().items()})
# single list candle
hx=Hexital('x',[],[I.EMA(period=3),I.EMA(period=3,timeframe='T5')]); 
for r in copy.deepcopy(rows_copy): hx.append(r[1:]+r[:1])
print('single lists',{k:len(v) for k,v in hx.get_candles().items()})
# Candle objects to Hexital with timeframe: base candle objects share?
cs=copy.deepcopy(s); hx=Hexital('x',[],[I.EMA(period=3),I.EMA(period=3,timeframe='T5')]); hx.append(cs)
print('base keeps ohlcv', [(c.open,c.high,c.low,c.close,c.volume) for c in hx.candles()]==[(c.open,c.high,c.low,c.close,c.volume) for c in s])
# C20
hx=Hexital('x',copy.deepcopy(s),[I.Counter(input_value='positive'),I.OBV(),I.MACD(fast_period=2,slow_period=3,signal_period=2),I.EMA(period=3,timeframe='T5'), I.Supertrend(period=3)]); hx.calculate()
for n in hx.indicators:
    ind=hx.indicator(n)
    print(n,'last',ind.reading(),'hx.reading',hx.reading(n),'has',ind.has_reading,'hx.has',hx.has_reading(n),'count',ind.reading_count(), 'prev',ind.prev_reading(), hx.prev_reading(n))
ind=hx.indicator('COUNT_positive'); print(ind.as_list())
print('reading idx 0 vs -n', ind.reading(index=0), ind.reading(index=-len(ind.candles)))
print(hx.reading('MACD_2_3_2.MACD'), hx.reading_as_list('MACD_2_3_2.MACD')[-3:], hx.indicator('MACD_2_3_2').reading('MACD_2_3_2.MACD'))

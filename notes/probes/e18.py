import os, time, sys, copy
from datetime import datetime, timedelta
from hexital import Candle
from hexital.core.candle_manager import CandleManager
tz=sys.argv[1]; os.environ['TZ']=tz; time.tzset()
cs=[Candle(1,2,0.5,1.5,10,timestamp=datetime(2023,3,12,0,10)+timedelta(minutes=20*i)) for i in range(12)]
for tf in ['T5','T45','H1','H4','D1']:
    m=CandleManager(copy.deepcopy(cs),timeframe=tf)
    print(tz,tf,[c.timestamp.strftime('%d %H:%M') for c in m.candles][:6], [c.volume for c in m.candles][:6])

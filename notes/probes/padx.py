from pc56 import *
r=random.Random(21)
import itertools
cnt=0
for it in range(250):
    s=gstream(r.randint(20,160), r.choice([1,100,10000]), r.choice([1,0.25,0.01])); p=r.randint(2,10)
    # consume same randomness as pc56 loop: mult choice
    c=[B(x.close) for x in s]; h=[B(x.high) for x in s]; l=[B(x.low) for x in s]
    mult=r.choice([1.0,2.0,3.0])
    a=I.ADX(candles=copy.deepcopy(s),period=p); a.calculate(); L=a.as_list()
    res={}
    for conv in ('undef','zero'):
        ref=refb.adx(h,l,c,p,p,conv); bad=None
        for i,(x,y) in enumerate(zip(L,ref)):
            for fld,j in (('ADX',0),('DM_Plus',1),('DM_Neg',2)):
                a_=x[fld]; b_=y[j]
                if a_ is None or b_ is None:
                    if (a_ is None)!=(b_ is None) and not (b_ is not None and b_.e==INF): bad=bad or (i,fld,a_,b_ and (b_.v,b_.e))
                    continue
                if b_.e!=INF and not ok(a_,b_): bad=bad or (i,fld,a_,(b_.v,b_.e))
        res[conv]=bad
    if all(res.values()):
        cnt+=1
        if cnt<=4:
            print(it,p,len(s),res)
            i=res['undef'][0]
            for j in range(max(0,i-3),i+1): print('   ',j,(s[j].open,s[j].high,s[j].low,s[j].close),L[j],a.candles[j].sub_indicators)
print(cnt)

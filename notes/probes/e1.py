from common import *
import copy, traceback
for name, mk in ALL.items():
    for cfg in [dict(), dict(timeframe='T5'), dict(timeframe='T5', timeframe_fill=True)]:
        bad=None
        for seed in range(6):
            s = mk_stream(40, seed, jitter=(seed%2==1))
            try:
                b = mk(candles=copy.deepcopy(s), **cfg); b.calculate()
                a = mk(candles=[], **cfg)
                for c in copy.deepcopy(s): a.append(c)
                sa, sb = snap(a), snap(b)
                if sa!=sb:
                    i = next((i for i,(x,y) in enumerate(zip(sa,sb)) if x!=y), None)
                    bad=(seed, len(sa), len(sb), i, sa[i] if i is not None else None, sb[i] if i is not None else None); break
            except Exception as e:
                bad=(seed,'EXC',repr(e), traceback.format_exc().splitlines()[-3:]); break
        print(name, cfg, 'OK' if not bad else ('DIFF', bad))

import sys, atheris
with atheris.instrument_imports(include=['hexital']):
    import hexital
    from hexital.core.candle_manager import CandleManager
from hexital import Candle
from datetime import datetime, timedelta
n=0
def one(data):
    global n; n+=1
    fdp=atheris.FuzzedDataProvider(data)
    t=datetime(2023,1,1); cs=[]
    for i in range(fdp.ConsumeIntInRange(0,12)):
        t+=timedelta(seconds=fdp.ConsumeIntInRange(0,700)); cs.append(Candle(1,2,1,1,1,timestamp=t))
    CandleManager(cs,timeframe='T5',timeframe_fill=fdp.ConsumeBool())
atheris.Setup(sys.argv,one); atheris.Fuzz()

from common import *
from hexital.analysis import movement as M, patterns as P, MOVEMENT_MAP, PATTERN_MAP
import collections, inspect, traceback
r=random.Random(3)
def mkc(n, missing=0.2):
    out=[]
    t0=datetime(2023,1,1)
    for i in range(n):
        o=r.randint(1,20); c=r.randint(1,20); h=max(o,c)+r.randint(0,3); l=min(o,c)-r.randint(0,1)
        cd=Candle(o,h,l,c,r.randint(0,9),timestamp=t0+timedelta(minutes=i))
        if r.random()>missing: cd.indicators['A']=r.randint(0,6)
        if r.random()>missing: cd.indicators['B']=r.randint(0,6)
        out.append(cd)
    return out
res=collections.defaultdict(lambda: collections.Counter()); ex={}
def call(f,cs,kw):
    try: return ('ok',f(cs,**kw))
    except Exception as e: return ('exc',type(e).__name__)
for it in range(3000):
    n=r.randint(1,16); cs=mkc(n, r.choice([0,0.2,0.5])); i=r.randrange(n); L=r.randint(1,6)
    for name,f in list(MOVEMENT_MAP.items())+[('above',M.above),('below',M.below)]:
        sig=inspect.signature(f).parameters
        kw={}
        if 'indicator' in sig: kw['indicator']='A'
        if 'indicator_one' in sig: kw['indicator_one']='A'; 
        if 'indicator_two' in sig: kw['indicator_two']='B'
        if 'indicator' in sig and 'indicator_two' in sig: pass
        if 'length' in sig: kw['length']=L
        a=call(f,cs,dict(kw,index=i)); b=call(f,cs[:i+1],kw); c=call(f,cs,dict(kw,index=i-n))
        for tag,x in (('trunc',b),('neg',c)):
            if x!=a:
                res[name][tag+(':exc' if 'exc' in (a[0],x[0]) else '')]+=1
                ex.setdefault((name,tag),(n,i,L,a,x,[(cd.indicators.get('A'),cd.indicators.get('B')) for cd in cs]))
        if a[0]=='exc': res[name]['exc_at_i']+=1; ex.setdefault((name,'exc'),(n,i,L,a,[(cd.indicators.get('A'),cd.indicators.get('B')) for cd in cs]))
for it in range(1500):
    n=r.randint(1,30); cs=mkc(n,0); i=r.randrange(n)
    for name,f in PATTERN_MAP.items():
        for lb in (None, r.randint(1,5)):
            kw={} if lb is None else {'lookback':lb}
            a=call(f,cs,dict(kw,index=i)); b=call(f,cs[:i+1],kw); c=call(f,cs,dict(kw,index=i-n))
            for tag,x in (('trunc',b),('neg',c)):
                if x!=a:
                    res[name+('+lb' if lb else '')][tag+(':exc' if 'exc' in (a[0],x[0]) else '')]+=1
                    ex.setdefault((name+('+lb' if lb else ''),tag),(n,i,lb,a,x))
for k,v in res.items(): print(k,dict(v))
for k,v in ex.items(): print(k,str(v)[:300])

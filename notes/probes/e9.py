from common import *
import math, traceback, collections
def streams():
    t0=datetime(2023,6,1,9,0)
    def mk(rows,step=60): return [Candle(o,h,l,c,v,timestamp=t0+timedelta(seconds=step*(i+1))) for i,(o,h,l,c,v) in enumerate(rows)]
    n=40
    yield 'flat', mk([(10,10,10,10,5)]*n)
    yield 'flat0vol', mk([(10,10,10,10,0)]*n)
    yield 'rising', mk([(10+i,11+i,10+i,11+i,5) for i in range(n)])
    yield 'falling', mk([(100-i,100-i,99-i,99-i,5) for i in range(n)])
    yield 'zerovol', mk([(10+i%3,12+i%3,9,10+(i+1)%3,0) for i in range(n)])
    yield 'flat_then_move', mk([(10,10,10,10,5)]*20+[(10+i,12+i,9+i,11+i,7) for i in range(20)])
    yield 'move_then_flat', mk([(10+i%5,12+i%5,9,10+(i+1)%5,7) for i in range(20)]+[(10,10,10,10,0)]*20)
    yield 'alt', mk([(10,11,9,10+(i%2),3) for i in range(n)])
    r=random.Random(5)
    yield 'gappy', [Candle(10,11,9,10+r.randint(0,2),3,timestamp=t0+timedelta(minutes=7*i*(1+(i%4==0)*3))) for i in range(n)]
def scan(ind):
    bad=[]
    seen={}
    for i,c in enumerate(ind.candles):
        for d in (c.indicators,c.sub_indicators):
            for k,v in d.items():
                items = v.items() if isinstance(v,dict) else [(None,v)]
                for kk,vv in items:
                    if isinstance(vv,float) and not math.isfinite(vv): bad.append(('nonfinite',i,k,kk,vv))
    # gaps in output
    lst=ind.as_list()
    fields = set()
    for v in lst:
        if isinstance(v,dict): fields|=set(v)
    def col(f): return [ (v.get(f) if isinstance(v,dict) else None) if f else v for v in lst]
    for f in (fields or [None]):
        cl=col(f); started=False
        for i,v in enumerate(cl):
            if v is not None: started=True
            elif started: bad.append(('gap',i,f)); break
    return bad
res=collections.defaultdict(list)
for sname,s in streams():
    for name,mk in ALL.items():
        for cfg in [dict(), dict(timeframe='T5',timeframe_fill=True)]:
            try:
                a=mk(candles=[],**cfg)
                for c in copy.deepcopy(s): a.append(c)
                bad=scan(a)
                if name=='Supertrend':  # long/short gaps are by design
                    bad=[b for b in bad if not (b[0]=='gap' and b[2] in ('long','short'))]
                if bad: res[name].append((sname,bool(cfg),bad[:2]))
            except Exception as e:
                tb=traceback.extract_tb(e.__traceback__)[-1]
                res[name].append((sname,bool(cfg),type(e).__name__,tb.filename.split('/')[-1],tb.lineno))
for k,v in res.items():
    print('==',k)
    for x in v: print('    ',x)

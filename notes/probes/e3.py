import random, copy, calendar, os
from datetime import datetime, timedelta
from hexital import Candle
from hexital.core.candle_manager import CandleManager
from hexital.utils.timeframe import timeframe_to_timedelta
EPOCH=datetime(1970,1,1)
def ref_collapse(cs, tf, fill=False):
    tfs=int(tf.total_seconds()); out=[]
    for c in cs:
        s=int((c.timestamp.replace(microsecond=0)-EPOCH).total_seconds())
        lab=-(-s//tfs)*tfs
        if out and out[-1][0]==lab:
            b=out[-1]; b[2]=max(b[2],c.high); b[3]=min(b[3],c.low); b[4]=c.close; b[5]+=c.volume
        else:
            out.append([lab,c.open,c.high,c.low,c.close,c.volume])
    if fill:
        o2=[]
        for b in out:
            while o2 and o2[-1][0]+tfs<b[0]:
                p=o2[-1]; o2.append([p[0]+tfs,p[4],p[4],p[4],p[4],0])
            o2.append(b)
        out=o2
    return [(EPOCH+timedelta(seconds=b[0]),*b[1:]) for b in out]
def rows(cs): return [(c.timestamp,c.open,c.high,c.low,c.close,c.volume) for c in cs]
def gen(r, n):
    t=datetime(2023,6,1,9,0,0)+timedelta(seconds=r.choice([0,0,1,17,60,299,300]))
    out=[]
    unit=r.choice([1,1,7,60,60,300,3600])
    for i in range(n):
        t+=timedelta(seconds=r.choice([0,1,1,1,2,3,5,10,50])*unit if r.random()<0.9 else r.randint(0,40)*unit*r.choice([1,10]))
        o=r.randint(1,100);c=r.randint(1,100);h=max(o,c)+r.randint(0,5);l=min(o,c)-r.randint(0,1)
        out.append(Candle(o,h,l,c,r.randint(0,50),timestamp=t))
    return out
os.environ['TZ']='UTC'
import time; time.tzset()
r=random.Random(1)
stats={'batch':0,'chunk':0,'exc':0,'n':0}
ex={}
for it in range(4000):
    n=r.randint(1,25); cs=gen(r,n)
    tfname=r.choice(['S1','S5','S30','T1','T5','T15','H1','H4','D1','S7','T7'])
    tf=timeframe_to_timedelta(tfname); fill=r.random()<0.4
    exp=ref_collapse(cs,tf,fill)
    if len(exp)>3000: continue
    stats['n']+=1
    try:
        m=CandleManager(copy.deepcopy(cs),timeframe=tfname,timeframe_fill=fill)
        got=rows(m.candles)
    except Exception as e:
        got=('EXC',type(e).__name__)
    if got!=exp:
        stats['batch']+=1
        ex.setdefault(('batch',tfname[0],fill, got[0] if got and got[0]=='EXC' else ''),(tfname,fill,rows(cs),got,exp))
    # chunks
    m=CandleManager([],timeframe=tfname,timeframe_fill=fill)
    i=0
    try:
        while i<n:
            k=r.randint(1,4); m.append(copy.deepcopy(cs[i:i+k])); i+=k
        got=rows(m.candles)
    except Exception as e:
        got=('EXC',type(e).__name__)
    if got!=exp:
        stats['chunk']+=1
        ex.setdefault(('chunk',tfname[0],fill, got[0] if got and got[0]=='EXC' else ''),(tfname,fill,rows(cs),got,exp))
print(stats)
for k,v in ex.items():
    print('----',k); 
    tfname,fill,inp,got,exp=v
    print(tfname,fill); print(' in ',[(str(a[0]),)+a[1:] for a in inp]); print(' got',[(str(a[0]),)+a[1:] for a in got] if got and got[0]!='EXC' else got); print(' exp',[(str(a[0]),)+a[1:] for a in exp])

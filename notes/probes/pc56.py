from common import *
from bounded import *
import refb, collections
r=random.Random(21)
def gstream(n,mag=100,tick=0.25):
    t=datetime(2023,6,1,9,0); out=[]; p=mag+r.randint(0,40)*tick; mode='walk'
    for i in range(n):
        if r.random()<0.12: mode=r.choice(['walk','walk','flat','up','down','zerovol'])
        if mode=='flat': o=h=l=c=p; v=r.choice([0,3])
        else:
            o=p; c=max(tick,p+(r.randint(1,6) if mode=='up' else -r.randint(1,6) if mode=='down' else r.randint(-6,6))*tick)
            h=max(o,c)+r.randint(0,4)*tick; l=max(tick,min(o,c)-r.randint(0,4)*tick); l=min(l,o,c); v=0 if mode=='zerovol' else r.randint(0,5)
        t+=timedelta(minutes=1); out.append(Candle(o,h,l,c,v,timestamp=t)); p=c
    return out
st=collections.defaultdict(lambda:[0,0,0.0,0]); exs={}
def rec(name,impl,ref,ctx=None):
    s=st[name]
    for i,(a,b) in enumerate(zip(impl,ref)):
        if b is refb.ANY: s[3]+=1; continue
        if a is None or b is None:
            if (a is None)!=(b is None):
                if b is not None and b.e==INF: s[3]+=1; continue
                s[1]+=1; exs.setdefault(name,(ctx,i,a,b and (b.v,b.e)))
            continue
        s[0]+=1
        if b.e==INF: s[3]+=1; continue
        if not ok(a,b): s[1]+=1; exs.setdefault(name,(ctx,i,a,(b.v,b.e)))
        if b.e>0: s[2]=max(s[2],abs(a-b.v)/(2*b.e))
for it in range(250):
    s=gstream(r.randint(20,160), r.choice([1,100,10000]), r.choice([1,0.25,0.01])); p=r.randint(2,10)
    c=[B(x.close) for x in s]; h=[B(x.high) for x in s]; l=[B(x.low) for x in s]
    ctx=(it,p,len(s))
    a=I.RSI(candles=copy.deepcopy(s),period=p); a.calculate(); rec('RSI',a.as_list(),refb.rsi(c,p),ctx)
    a=I.StandardDeviation(candles=copy.deepcopy(s),period=p); a.calculate(); rec('STDEV',a.as_list(),refb.stdev(c,p),ctx)
    a=I.RMA(candles=copy.deepcopy(s),period=p); a.calculate(); rec('RMA',a.as_list(),refb.rma(c,p),ctx)
    a=I.STOCH(candles=copy.deepcopy(s),period=p,smoothing_k=2,slow_period=3); a.calculate(); L=a.as_list()
    s_,k_,d_=refb.stoch(h,l,c,p,2,3)
    rec('STOCH.stoch',[x['stoch'] for x in L],[v if v is None or v is refb.ANY else v.store(4) for v in s_],ctx)
    rec('STOCH.k',[x['k'] for x in L],k_,ctx); rec('STOCH.d',[x['d'] for x in L],d_,ctx)
    a=I.AROON(candles=copy.deepcopy(s),period=p); a.calculate(); L=a.as_list(); ar=refb.aroon(h,l,p)
    rec('AROON.U',[x['AROONU'] for x in L],[None if v is None else v[0] for v in ar],ctx)
    a=I.ADX(candles=copy.deepcopy(s),period=p); a.calculate(); L=a.as_list()
    okc=False
    for conv in ('undef','zero'):
        ref=refb.adx(h,l,c,p,p,conv)
        tmp=collections.defaultdict(lambda:[0,0,0.0,0]); save=st; 
        good=True
        for i,(x,y) in enumerate(zip(L,ref)):
            for fld,j in (('ADX',0),('DM_Plus',1),('DM_Neg',2)):
                a_=x[fld]; b_=y[j]
                if a_ is None or b_ is None:
                    if (a_ is None)!=(b_ is None) and not (b_ is not None and b_.e==INF): good=False
                    continue
                if b_.e!=INF and not ok(a_,b_): good=False
        if good: okc=True; st['ADX conv='+conv][0]+=1
    st['ADX'][0]+=1
    if not okc: st['ADX'][1]+=1; exs.setdefault('ADX',ctx)
    mult=r.choice([1.0,2.0,3.0])
    a=I.Supertrend(candles=copy.deepcopy(s),period=p,multiplier=mult); a.calculate(); L=a.as_list()
    ref,amb=refb.supertrend(h,l,c,p,mult)
    if amb is not None: st['ST ambiguous'][0]+=1
    for i,y in enumerate(ref):
        x=L[i]
        if y is None:
            if x['trend'] is not None: st['ST'][1]+=1; exs.setdefault('ST',(ctx,i,x,None))
            continue
        st['ST'][0]+=1
        if x['direction']!=y[0] or x['trend'] is None or not ok(x['trend'],y[1]): st['ST'][1]+=1; exs.setdefault('ST',(ctx,i,x,(y[0],y[1].v,y[1].e)))
        elif y[1].e>0: st['ST'][2]=max(st['ST'][2],abs(x['trend']-y[1].v)/(2*y[1].e))
for k,v in sorted(st.items()): print(k,'points',v[0],'fails',v[1],'max ratio',round(v[2],3),'any/illcond',v[3])
for k,v in exs.items(): print('EX',k,v)

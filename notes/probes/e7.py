from common import *
import sys, collections
FILES=('/hexital/indicators/','/hexital/analysis/','/hexital/core/indicator.py','/hexital/utils/candles.py','/hexital/utils/indexing.py')
class Counter_:
    def __init__(s): s.n=0; s.calls=0
    def __enter__(s):
        def tr(frame,event,arg):
            fn=frame.f_code.co_filename
            if not any(f in fn for f in FILES): return None
            s.calls+=1
            def loc(frame,event,arg):
                if event=='line': s.n+=1
                return loc
            return loc
        sys.settrace(tr); return s
    def __exit__(s,*a): sys.settrace(None)
def work(mk,n,cfg):
    s=mk_stream(n+3,7)
    a=mk(candles=copy.deepcopy(s[:n]),**cfg); a.calculate()
    out=[]
    for c in copy.deepcopy(s[n:]):
        with Counter_() as k: a.append(c)
        out.append(k.n)
    return out
for name,mk in ALL.items():
    if name in('RSI',): continue
    for cfg in [dict(),dict(timeframe='T5')]:
        w=[work(mk,n,cfg) for n in (100,400,1600)]
        flag='' if max(w[2])<=max(w[0])*1.3+20 else '  <<<<< GROWS'
        print(name,cfg,w,flag)
